"""C22 (and C21) - explicit-state exploration of the real dispatcher bytecode,
plus a combined user-space + kernel exploration of a fast group's life cycle.

Part 1, dispatcher search.
State = (loop counter low byte, output enabled?, overtaking budget left,
queue of <= 3 in-flight frames in ring order, consecutive passes without the
group program, [tracked frame]).  Every delivery executes the real assembled
`EtherXDP` program in the independent interpreter; its `tail_call` enters the
real assembled `FastSyncGroup` program of a group built over hand-faked
terminals whose device stamps a pass marker into every output.  Both programs
are additionally loaded into the real kernel (when possible) and every distinct
step is replayed through BPF_PROG_TEST_RUN and compared.  The bus answers an
enabled write datagram with the expected working counter, expected-1 or 0
(these multiply the deliveries); every distinct step of a frame with an enabled
write datagram is additionally executed and judged with wrong counters that
coincide with the expected one in their low bits (expected+0x100, |0x8000,
0xff00|expected, 0xffff, expected+1, 0x80|expected, expected+0x200; one writer
at a time and all together) - a wrong counter is one class for the successor
state, so these do not multiply the states.  Three more families of variants
of every distinct step are executed and judged in the same way (judged, not
explored further):
  * stragglers: while output is disabled (start-up, "just registered") or the
    group has no program, the frame arrives with its write datagrams ENABLED
    (an activated frame of an earlier group of the same devices in the same
    slot, still on the wire) and with working counters as expected / all 0 /
    one wrong / all wrong.  Only (loop index, commands) that the real
    programs put on the bus are used (`Model.activated`, derived by running
    them for every counter value).  C21: nothing is counted, nothing
    re-enabled, nothing cleared; the frame leaves the bus (handed to user
    space) or goes back with every write datagram disabled.  The unchanged
    tree returns such a frame still enabled when the new group's program
    gets it with output disabled: known finding KF_ADOPTED, attributed only
    for exactly that shape (see `judge_pass`);
  * the ethertype: the same step for a master whose own ethertype is 0x88A4
    (data0 == 0x88A4) besides the default data0 != 0x88A4; on every pass a
    frame returned to the bus keeps 0x88A4 and a frame handed to user space
    carries data0, and the outcome does not depend on data0 otherwise;
  * the counter abstraction: the state keeps the low byte of the loop counter
    word; sampled steps are repeated with other upper 24 bits (0xfedcba,
    0x000001, 0xffffff).  If the outcome differs, the low byte is not the
    whole state: the space is then explored twice more with the counter word
    living above 255 (0x100 | c and 0xffffff00 | c: "the slot has seen more
    than 255 frames", which every slot reaches because the word is never
    reset), judged by the same invariants; violations found there carry
    high=True in their case.  Only when these spaces show nothing either the
    run ends INTERNAL (abstraction not exact).

Part 2, life cycle (`Life`).
The real `FastSyncGroup.run` / `SyncGroupBase.run` / `update_devices` /
`roundtrip_packet` / `datagram_received` of one or two masters (real
`FastEtherCat` objects, as two processes sharing the pinned table would be)
run on the virtual loop; the real `FastEtherCat.register_sync_group` loads the
group's program and edits the program table in the simulated kernel (seams
`mc.fastsim.SimBpf`); every frame user space sends really circulates: each bus
pass executes the real dispatcher bytecode and, by tail call, whatever program
sits in the table slot.  The explorer (stateless search, deviations from a
default schedule bounded by the tier) owns: bus pass or timer first, loss of
the oldest / of all frames in flight, a wrong working counter, cancel() of
run() or running=False at any point once output is enabled, and the random
group numbers (every function of the random source is owned, tiny domain, so
collisions between two masters are forced).  Both invariant sets are
evaluated on every pass, including those between a stop request and the
unregistration.  Also: loop counters an earlier user of the slot left above
255 (0x1fe: the real 32-bit word, no abstraction), and a restart - the
cancelled group's successor gets the same slot while the old group's frames,
one of them activated, are still on the wire and output is disabled.

One explorer, two invariant sets: `run_for(ctx, "C22")` / `run_for(ctx, "C21")`.
"""
import contextlib
import hashlib
import struct
from collections import deque

from mc import bpfvm, core, ecparse, explore, fastsim, kern
from ebpfcat.ebpfcat import (
    Device, DeviceVar, EBPFTerminal, FastEtherCat, FastSyncGroup, PacketDesc,
    TerminalVar)
from ebpfcat.ethercat import SyncManager

PROP = "C22"
LEVEL = "model_checking"
RULE = ("breadth-first search over all dispatcher states reachable by "
        "deliveries (ring order, or out of order within the overtaking budget "
        "K), losses, injections of fresh sterile frames, bus working-counter "
        "answers {expected, expected-1, 0} and foreign frames, <= 3 frames in "
        "flight, per sync-group layout and registered/unregistered; every "
        "distinct (counter, output flag, arriving frame) step runs the real "
        "dispatcher + group bytecode, steps of frames with enabled write "
        "datagrams also with wrong counters that equal the expected one in "
        "their low bits, steps with output disabled or without a program "
        "also with an arriving frame whose write datagrams are enabled "
        "(straggler of an earlier group in the slot; counters expected / 0 / "
        "wrong), every step also with data0 = 0x88A4 (ethertype of returned "
        "and of handed-up frames judged on every pass); loop counter kept as "
        "its low byte, sampled steps re-run with other upper bits, and if "
        "they matter the whole space explored again with the counter word "
        "above 255; a state is non-trivial when at least one frame is "
        "in flight.  Life cycle: all executions of the real FastSyncGroup.run "
        "+ register_sync_group of one group (every layout, left-over loop "
        "counters) and of two masters with one or two groups each on one "
        "program table, frames passing the real dispatcher + table, with at "
        "most `bound` deviations (timer/bus order, losses, wrong counter, "
        "cancel, running=False) from the default schedule and all random "
        "group numbers from a 3-element domain; plus one group per layout "
        "with the slot's counter word left at 0x1fe, and a cancelled group "
        "restarted in the same slot while its frames are on the wire; an "
        "execution is non-trivial "
        "when the program ran with output enabled and a frame reached user "
        "space")

TX, PASS = bpfvm.XDP_TX, bpfvm.XDP_PASS
ECAT = b"\x88\xa4"             # the ethertype of a frame on the loop
INDEX0 = 17                    # EtherXDP.INDEX0, raw-frame offset
ETHERTYPE = 0x9abc             # what user space wants to see (data0)
MARK, STALE = 0x5a5a, 0x1111
WRITE_CMDS = (2, 3, 5, 6, 8, 9, 11, 12)
MAXQ = 3
NSAT = 3

KF_NOTGEN = "C22-dispatcher-not-generated"
KF_STARVE = "C22-starved-by-overtaking"
KF_ADOPTED = "C21-activated-frame-adopted-by-disabled-group"


def defect_model_of(observed):
    """the known-finding id a step-local violation was attributed to by
    `judge_pass` (directly or inside a variant's record), or None"""
    for o in (observed, observed.get("observed")
              if isinstance(observed, dict) else None):
        # (a variant's record holds the judged pass's own record)
        if isinstance(o, dict) and o.get("defect_model"):
            return o["defect_model"]
    return None

# (position, use_fmmu, in_sz, out_sz); writers/readers = datagram counts
LAYOUTS = {
    "w1r1-fmmu": [(1, True, 2, 2)],
    "w2r1-mixed": [(1, False, 0, 2), (2, True, 2, 2), (3, True, 0, 2)],
    "w0r0": [],
    "w0r1-fmmu": [(1, True, 2, 0)],
    "w0r2-mixed": [(1, True, 2, 0), (2, False, 2, 0)],
    "w1r0-direct": [(4, False, 0, 2)],
    "w1r2-mixed": [(1, True, 2, 2), (2, False, 2, 0)],
    "w2r0-mixed": [(1, True, 0, 2), (7, False, 0, 2)],
    "w2r2-mixed": [(1, True, 2, 2), (2, False, 2, 2)],
}
QUICK_LAYOUTS = ["w1r1-fmmu", "w2r1-mixed"]
GROUP_INDEX = {"w1r1-fmmu": 5, "w2r1-mixed": 63, "w0r0": 0, "w0r1-fmmu": 1,
               "w0r2-mixed": 17, "w1r0-direct": 62, "w1r2-mixed": 33,
               "w2r0-mixed": 2, "w2r2-mixed": 40}
FOREIGN = ["non-ethercat", "no-id-datagram", "index-64", "index-1000",
           "index-minus1", "index-64k+group", "index-2^31+group",
           "index-256+group", "short-14", "short-30"]
PRANDOM = [0, 1, 0xffff, 0x12345678, 0xffffffff, 0x10000]


class _T(EBPFTerminal):
    o = PacketDesc(SyncManager.OUT, 0, "H")
    i = PacketDesc(SyncManager.IN, 0, "H")


def make_device(nout, nin):
    """a tiny device: counts its runs and stamps the marker into every
    output it is linked to"""
    outs = [f"out{k}" for k in range(nout)]

    def program(self):
        self.runs += 1
        for name in outs:
            setattr(self, name, self.marker)

    attrs = dict(program=program, marker=DeviceVar("H", write=True),
                 runs=DeviceVar("I"))
    for k in range(nout):
        attrs[f"out{k}"] = TerminalVar()
    for k in range(nin):
        attrs[f"in{k}"] = TerminalVar()
    return type("StampDevice", (Device,), attrs)()


def make_devices(layout, ec):
    """terminals and the stamping device of a layout, linked
    -> (device, output terminals, input terminals)"""
    spec = LAYOUTS[layout]
    terms = [fastsim.fake_terminal(ec, _T, pos, insz, outsz, fm,
                                   in_off=0x1100 + 16 * n,
                                   out_off=0x1000 + 16 * n)
             for n, (pos, fm, insz, outsz) in enumerate(spec)]
    outs = [t for t in terms if t.pdo_out_sz]
    ins = [t for t in terms if t.pdo_in_sz]
    dev = make_device(len(outs), len(ins))
    for k, t in enumerate(outs):
        setattr(dev, f"out{k}", t.o)
    for k, t in enumerate(ins):
        setattr(dev, f"in{k}", t.i)
    return dev, outs, ins


def build_group(layout, kernel, seam):
    ec = fastsim.new_ec()
    dev, outs, ins = make_devices(layout, ec)
    g = fastsim.FastGroup([dev], ec, kernel, index=GROUP_INDEX[layout],
                          seam=seam, ethertype=ETHERTYPE)
    g.dev = dev
    g.out_pos = [g.sg.pdo_assign[t][SyncManager.OUT] + fastsim.ETH
                 for t in outs]
    return g


class Internal(core.Internal):
    pass


class LeakedState(Exception):
    """a group cannot be generated once another (different) group exists in
    the process, although every layout is generated alone in the self-test:
    state leaks between sync groups"""


def standalone_ok(layout):
    """does the layout build in a fresh interpreter state?  (run in a
    forked child so that leaked module state cannot interfere; os.fork
    because pool workers may not have multiprocessing children)"""
    import os
    import sys
    sys.stdout.flush()
    pid = os.fork()
    if pid == 0:
        rc = 1
        try:
            fastsim.reset_globals()
            build_group(layout, bpfvm.Kernel(), False)
            rc = 0
        except BaseException:
            rc = 1
        os._exit(rc)
    _, status = os.waitpid(pid, 0)
    return os.WIFEXITED(status) and os.WEXITSTATUS(status) == 0


def judge_pass(writers, out_pos, gsize, registered, werr0, mark, frame, obs,
               ever_enabled=False):
    """step-local invariants of one dispatcher pass of a frame of a group
    -> list of (prop, name, expected, observed).

    writers: [(command position, counter position, command, expected
    counter)] and out_pos: output positions, all in the raw frame; gsize:
    size of the group's packet; werr0: wkc_errors before the pass; mark:
    what the device stamps into every output in this pass; obs: trap, ret,
    frame (after), tail (did the dispatcher's tail call enter the group's
    program), werr (after), runs (device program runs in this pass);
    ever_enabled: has the output of this group been enabled at any time
    since it was registered (only used to attribute KF_ADOPTED narrowly)."""
    v = []
    if obs["trap"] is not None:
        v.append(("C22", "trap", "XDP action TX or PASS",
                  "trap: " + obs["trap"]))
        return v
    won = werr0 != 0
    ret, post, tail = obs["ret"], obs["frame"], obs["tail"]
    if obs.get("random"):
        main, alt, r2, _ = obs["random"]
        v.append(("C22", "outcome depends on the random helper at drop "
                  "rate 0", f"the same outcome for answers {main:#x} and "
                  f"{alt:#x}", f"action {r2} with {alt:#x}"))
    if ret not in (TX, PASS):
        v.append(("C22", "frame dropped", "XDP action TX(3) or PASS(2)",
                  f"action {ret}"))
    if len(post) != len(frame):
        v.append(("C22", "frame length changed", len(frame), len(post)))
        return v
    data0 = bytes(frame[26:28])
    # the ethertype of a frame of a group, on every pass: what goes back
    # onto the EtherCAT loop is an EtherCAT frame, what is handed to user
    # space carries the ethertype user space asked for (data0)
    if ret == PASS and bytes(post[12:14]) != data0[::-1]:
        v.append(("C22", ("registered" if registered else "unregistered")
                  + " group: frame reaches user space "
                  "with the wrong ethertype",
                  data0[::-1].hex(), bytes(post[12:14]).hex()))
    if ret == TX and bytes(post[12:14]) != ECAT:
        v.append(("C22", "frame returned to the bus without the EtherCAT "
                  "ethertype", ECAT.hex(),
                  dict(ethertype=bytes(post[12:14]).hex(),
                       data0=data0[::-1].hex(),
                       group_program_ran=bool(tail))))
    diff = {i for i in range(len(frame)) if frame[i] != post[i]}
    # the loop index and the ethertype belong to the dispatcher (C22
    # judges the ethertype); C21 is about everything else in the frame
    allowed = {INDEX0, 12, 13}
    processed = tail >= 1
    enabled = processed and won and len(frame) >= gsize + fastsim.ETH
    if enabled:
        mism = 0
        for n, (cp, wp, val, exp) in enumerate(writers):
            allowed |= {cp, wp, wp + 1}
            if post[cp] != val:
                v.append(("C21", "write datagram not re-enabled",
                          f"writer {n} command {val}", post[cp]))
            w = struct.unpack_from("<H", post, wp)[0]
            if w != 0:
                v.append(("C21", "working counter not cleared",
                          f"writer {n} counter 0", w))
            if struct.unpack_from("<H", frame, wp)[0] != exp:
                mism += 1
        if (obs["werr"] - werr0) & 0xffffffff != mism:
            v.append(("C21", "error count wrong",
                      f"wkc_errors grows by {mism}",
                      f"grew by {obs['werr'] - werr0}"))
        for p in out_pos:
            allowed |= {p, p + 1}
            if struct.unpack_from("<H", post, p)[0] != mark:
                v.append(("C21", "output not computed in this pass",
                          hex(mark),
                          hex(struct.unpack_from("<H", post, p)[0])))
        if obs["runs"] != 1:
            v.append(("C21", "device program did not run exactly once "
                      "in an enabled pass", 1, obs["runs"]))
    else:
        if obs["werr"] != werr0:
            v.append(("C21", "errors counted in a pass without enabled "
                      "processing", werr0, obs["werr"]))
        # disabling a write datagram (command -> NOP) is not re-enabling,
        # clearing or counting: a pass may do that whenever it likes (it is
        # the only way such a frame may go back onto the bus)
        allowed |= {cp for cp, _, _, _ in writers if post[cp] == 0}
    bad = sorted(diff - allowed)
    if bad:
        what = "re-activation" if enabled else \
            "a pass that does not process the frame with output enabled"
        v.append(("C21", f"{what} changed other frame bytes",
                  "only " + ",".join(map(str, sorted(allowed))),
                  dict(changed=bad[:8],
                       values=[post[i] for i in bad[:8]])))
    live = [post[cp] for cp, _, _, _ in writers]
    if ret == TX and any(live):
        if not processed:
            v.append(("C21", "frame returned to the bus with enabled write "
                      "datagrams without being processed in this pass",
                      "all writer commands NOP, or group program ran",
                      dict(commands=live, index=post[INDEX0])))
        elif not won:
            # the group's program ran, with output disabled: nothing in the
            # frame was computed in this pass
            o = dict(commands=live, index=post[INDEX0], wkc_errors=werr0,
                     outputs=[struct.unpack_from("<H", post, p)[0]
                              for p in out_pos])
            # defect model KF_ADOPTED, exactly: the frame ARRIVED with these
            # write datagrams enabled (the pass enabled nothing and changed
            # nothing but the loop index), nothing was counted, and the
            # output of this group has never been enabled: the frame was
            # activated by an earlier user of the slot.  The modelled
            # deviation: "the program of a group whose output is disabled
            # returns the frame as it came instead of disabling its write
            # datagrams"; with the datagrams disabled this pass is accepted
            # (see `allowed` above), so the failure vanishes under it.
            if not ever_enabled and not bad and obs["werr"] == werr0 == 0 \
                    and live == [frame[cp] for cp, _, _, _ in writers]:
                o["defect_model"] = KF_ADOPTED
                obs["disabled_program_returned_enabled_frame"] = True
            v.append(("C21", "frame returned to the bus with enabled write "
                      "datagrams in a pass with output disabled",
                      "all writer commands NOP, or the group program "
                      "processed the frame with output enabled "
                      "(wkc_errors != 0)", o))
    return v


# ===================================================================== model
class Model:
    """one (layout, registered) configuration; executes steps on bytecode"""

    def __init__(self, layout, registered, use_kernel=True):
        self.layout = layout
        self.registered = registered
        self.index = GROUP_INDEX[layout]
        self.K = bpfvm.Kernel()
        self.disp, self.gen_note = fastsim.build_dispatcher(self.K)
        seam = self.gen_note is not None
        # a different group built earlier in the same process: nothing of it
        # may leak into the group under test
        self.decoy = build_group("w2r2-mixed" if layout != "w2r2-mixed"
                                 else "w1r2-mixed", self.K, seam)
        try:
            self.group = build_group(layout, self.K, seam)
        except Exception as e:
            raise LeakedState(repr(e)[:200])
        if registered:
            self.disp.register(self.index, self.group)
        g = self.group
        self.writers = [(c + fastsim.ETH, w + fastsim.ETH, v, e)
                        for c, w, v, e in g.writers()]
        self.template = bytearray(fastsim.ETH_HEADER + g.sterile)
        for p in g.out_pos:
            struct.pack_into("<H", self.template, p, STALE)
        self.fresh = (0, tuple(0 for _ in self.writers),
                      tuple(w[3] for w in self.writers))
        self.nruns = 0
        self.nvariants = 0
        self.nstragglers = 0
        self.ndata0 = 0
        self.nadopted = 0
        self.cache = {}
        self.kernel_note = None
        self.rdisp = self.rgroup = None
        self.kernel_checked = 0
        # the upper 24 bits of the loop counter word the steps are executed
        # with (0: a slot that has seen fewer than 256 frames)
        self.hi = 0
        self.high_checked = 0
        self.high_dep = None
        self.step_outcomes = set()
        self.activated = {}
        self._collect_activated()
        if use_kernel and kern.available():
            self._load_real(seam)

    def _load_real(self, seam):
        try:
            rd = fastsim.Dispatcher(None, seam=seam)
        except Exception as e:    # cannot even be built for the real kernel
            self.kernel_note = f"build failed: {e!r}"[:300]
            return
        try:
            rg = build_group(self.layout, None, seam)
            rd.load_real()
            rg.load_real()
        except kern.LoadError as e:
            self.kernel_note = ("kernel_load_failed: " + e.log[-400:])
            rd.close()
            return
        self.build_mismatch = None
        if rg.code != self.group.code and \
                len(rg.code) != len(self.group.code):
            # the same declaration built twice gives different programs:
            # state leaks between sync groups of one process
            self.build_mismatch = (len(self.group.code) // 8,
                                   len(rg.code) // 8)
            rd.close()
            return
        if self.registered:
            rd.register(self.index, rg)
        self.rdisp, self.rgroup = rd, rg

    def close(self):
        if self.rdisp is not None:
            self.rgroup.close()
            self.rdisp.close()

    # ------------------------------------------------------------ frames
    def frame_bytes(self, fr):
        idx, cmds, wkcs = fr
        f = bytearray(self.template)
        f[INDEX0] = idx
        for (cp, wp, _, _), c, w in zip(self.writers, cmds, wkcs):
            f[cp] = c
            struct.pack_into("<H", f, wp, w)
        return f

    def frame_state(self, f):
        return (f[INDEX0],
                tuple(f[cp] for cp, _, _, _ in self.writers),
                tuple(struct.unpack_from("<H", f, wp)[0]
                      for _, wp, _, _ in self.writers))

    def bus_choices(self, fr):
        """working-counter increments the bus may add to enabled writers"""
        idx, cmds, wkcs = fr
        doms = []
        for (_, _, v, e), c in zip(self.writers, cmds):
            if c == 0:
                doms.append([0])
            else:
                doms.append(sorted({e, max(e - 1, 0), 0}, reverse=True))
        out = [()]
        for d in doms:
            out = [o + (x,) for o in out for x in d]
        return out

    def wrong_counter_variants(self, fr):
        """arriving frames that differ from `fr` in the counter of ONE
        enabled write datagram (and one with all of them changed), set to a
        wrong value that coincides with the expected one in its low bits:
        expected + 0x100, expected | 0x8000, 0xff00 | expected, 0xffff,
        plus expected + 1 and 0x80 | expected.  All of them are 'wrong'
        answers: the step is executed and judged, the successor state is
        that of any wrong answer (counter cleared, one more error), so they
        do not multiply the state space -> [(writer or 'all', value, frame)]
        """
        idx, cmds, wkcs = fr
        out = []
        allw = list(wkcs)
        for n, ((_, _, _, e), cmd) in enumerate(zip(self.writers, cmds)):
            if cmd == 0:
                continue
            vals = []
            for v in (e + 0x100, e | 0x8000, 0xff00 | e, 0xffff, e + 1,
                      0x80 | e, e + 0x200):
                v &= 0xffff
                if v != e and v not in vals:
                    vals.append(v)
            for v in vals:
                w = list(wkcs)
                w[n] = v
                out.append((n, v, (idx, cmds, tuple(w))))
            allw[n] = (e + 0x100) & 0xffff
        if sum(1 for c in cmds if c) > 1:
            out.append(("all", None, (idx, cmds, tuple(allw))))
        return out

    def _collect_activated(self):
        """the frames with enabled write datagrams that the real programs
        put on the bus: loop index -> {writer commands}.  Found by running
        the dispatcher + the group's program (registered, output enabled)
        on sterile frames for every value of the loop counter; nothing is
        judged here, this is the alphabet of the stragglers."""
        if not self.writers:
            return
        if not self.registered:
            self.disp.register(self.index, self.group)
        try:
            for c in range(256):
                for idx in sorted({0, c, (c - 1) & 0xff}):
                    frame = self.frame_bytes((idx, self.fresh[1],
                                              self.fresh[2]))
                    obs = self._execute1(c, 1, frame, PRANDOM[3])
                    if obs["trap"] is None and obs["ret"] == TX and \
                            len(obs["frame"]) == len(frame):
                        st = self.frame_state(obs["frame"])
                        if any(st[1]):
                            self.activated.setdefault(st[0], set()).add(st[1])
        finally:
            if not self.registered:
                self.disp.unregister(self.index)

    def straggler_variants(self, fr):
        """frames with ENABLED write datagrams arriving in a pass in which
        output is disabled or the group has no program: an activated frame
        of an earlier group of the same devices in the same slot, still on
        the wire.  Same loop index as `fr`; only (index, commands) that the
        real programs produce (`activated`); counters: all as expected
        (executed by the terminals), all zero (cleared by the old program,
        not executed), one writer wrong (0, expected + 0x100, 0xffff) and all
        writers expected + 0x100 -> [(what, frame state)]"""
        idx = fr[0]
        out = []
        exp = tuple(w[3] for w in self.writers)
        for cmds in sorted(self.activated.get(idx, ())):
            live = [n for n, c in enumerate(cmds) if c]
            seen = set()

            def add(what, wk):
                wk = tuple(w if n in live else exp[n]
                           for n, w in enumerate(wk))
                if wk not in seen:
                    seen.add(wk)
                    out.append((what, (idx, cmds, wk)))
            add("every counter as expected", exp)
            add("every counter 0", tuple(0 for _ in exp))
            for n in live:
                for v in (0, exp[n] + 0x100, 0xffff):
                    w = list(exp)
                    w[n] = v & 0xffff
                    add(f"writer {n} returned {v & 0xffff:#06x}", w)
            add("every counter expected + 0x100",
                tuple((e + 0x100) & 0xffff for e in exp))
        return out

    def foreign_frame(self, kind):
        # loop index 0 ("fresh"): were such a frame mistaken for a frame of
        # a group, the dispatcher would count it
        f = self.frame_bytes((0, self.fresh[1], self.fresh[2]))
        if kind == "non-ethercat":
            f[12:14] = b"\x08\x00"
        elif kind == "no-id-datagram":
            f[16] = 7
        elif kind == "index-64":
            struct.pack_into("<I", f, 18, 64)
        elif kind == "index-1000":
            struct.pack_into("<I", f, 18, 1000)
        elif kind == "index-minus1":
            struct.pack_into("<i", f, 18, -1)
        elif kind == "index-64k+group":
            # slow-path indices that equal the group's number in their low
            # 16 / 8 / 31 bits (roundtrip_packet draws from 2000..10^9)
            struct.pack_into("<I", f, 18, 0x30000 + self.index)
        elif kind == "index-256+group":
            struct.pack_into("<I", f, 18, 0x100 + self.index)
        elif kind == "index-2^31+group":
            struct.pack_into("<I", f, 18, 0x80000000 + self.index)
        elif kind == "short-14":
            f = f[:14]
        elif kind == "short-30":
            f = f[:30]
        else:
            raise Internal(kind)
        return f

    # ------------------------------------------------------------ one pass
    def execute(self, c32, won, frame):
        """run the dispatcher once -> observation dict (VM; kernel compared).
        The random helper answers with the next value of PRANDOM; the step
        is repeated with the boundary answers (low 16 bits all zero / all
        one): at drop rate 0 the outcome must not depend on the helper"""
        self.nruns += 1
        main = PRANDOM[self.nruns % len(PRANDOM)]
        obs = self._execute1(c32, won, frame, main)
        if obs["trap"] is None:
            for alt in (0, 0xffff, 0x10000):
                if alt == main:
                    continue
                o2 = self._execute1(c32, won, frame, alt)
                if any(o2[k] != obs[k] for k in ("ret", "frame", "c",
                                                  "werr", "runs", "trap")):
                    obs["random"] = (main, alt, o2["ret"], o2["trap"])
                    # judge the deviating run: it is the one that shows
                    # what goes wrong
                    o2["random"] = obs["random"]
                    return o2
        if self.rdisp is not None and obs["trap"] is None:
            self._kernel_compare(c32, won, frame, obs)
        return obs

    def _execute1(self, c32, won, frame, prandom):
        d, g = self.disp, self.group
        d.area[:] = bytes(len(d.area))
        d.set_counter(self.index, c32)
        g.area[:] = bytes(len(g.area))
        g.set_wkc_errors(1 if won else 0)
        g.set_var(g.dev, "marker", "H", MARK)
        f = bytearray(frame)
        obs = dict(trap=None)
        try:
            ret, vm = fastsim.run_vm(self.K, d.insns, f, prandom)
            obs.update(ret=ret, tail=vm.tail_calls, steps=vm.steps)
        except bpfvm.Trap as t:
            obs.update(ret=None, tail=0, trap=str(t), steps=0)
        obs.update(frame=bytes(f), c=d.get_counter(self.index),
                   werr=g.get_wkc_errors(), runs=g.get_var(g.dev, "runs", "I"),
                   other=self._other_map_bytes(d))
        return obs

    def _other_map_bytes(self, d):
        b = bytearray(d.area[:])
        o = d.counters_off + 4 * self.index
        b[o:o + 4] = b"\0\0\0\0"
        return any(b)

    def _kernel_compare(self, c32, won, frame, obs):
        d, g = self.rdisp, self.rgroup
        d.area[:len(self.disp.area)] = bytes(len(self.disp.area))
        d.set_counter(self.index, c32)
        g.area[:len(self.group.area)] = bytes(len(self.group.area))
        g.set_wkc_errors(1 if won else 0)
        g.set_var(g.dev, "marker", "H", MARK)
        ret, out = kern.test_run(d.prog_fd, frame)
        kobs = (ret, bytes(out), d.get_counter(self.index),
                g.get_wkc_errors(), g.get_var(g.dev, "runs", "I"))
        vobs = (obs["ret"], obs["frame"], obs["c"], obs["werr"], obs["runs"])
        self.kernel_checked += 1
        if kobs != vobs:
            raise Internal(
                f"VM/kernel disagreement layout={self.layout} "
                f"registered={self.registered} c={c32:#x} won={won} "
                f"frame={bytes(frame).hex()} vm={core.jsonable(vobs)} "
                f"kernel={core.jsonable(kobs)}")

    # ------------------------------------------------------------ judging
    def judge_group_step(self, c, won, frame, obs):
        """step-local invariants -> list of (prop, name, expected, observed)"""
        if not self.registered and obs["trap"] is None and obs["tail"]:
            raise Internal("tail call succeeded for an unregistered group")
        return judge_pass(self.writers, self.group.out_pos, self.group.size,
                          self.registered, 1 if won else 0, MARK, frame, obs)

    def judge_foreign(self, kind, frame, obs, c):
        v = []
        if obs["trap"] is not None:
            return [("C22", "trap on foreign frame", "PASS",
                     "trap: " + obs["trap"])]
        if obs["ret"] != PASS:
            v.append(("C22", f"foreign frame ({kind}) not passed", "PASS(2)",
                      f"action {obs['ret']}"))
        post = obs["frame"]
        diff = [i for i in range(min(len(frame), len(post)))
                if frame[i] != post[i]]
        if kind.startswith("index-"):
            # an identification datagram of a slow-path packet: user space
            # wants it under the ethertype it asked for
            if bytes(post[12:14]) not in (bytes(frame[12:14]),
                                          bytes(frame[26:28])[::-1]):
                v.append(("C22", "slow-path frame gets a foreign ethertype",
                          bytes(frame[26:28])[::-1].hex(),
                          bytes(post[12:14]).hex()))
            diff = [i for i in diff if i not in (12, 13)]
        if diff or len(post) != len(frame):
            v.append(("C22", f"foreign frame ({kind}) modified",
                      "byte-identical", dict(changed=diff[:8])))
        return v

    # ------------------------------------------------------------ steps
    HIGH_PROBES = (0xfedcba00, 0x00000100, 0xffffff00)

    def _abstraction_check(self, c, won, fr, frame, obs):
        """the counter abstraction: the state keeps the low byte of the loop
        counter word.  Exact when the outcome of a step does not depend on
        the upper 24 bits: the step is repeated with other upper bits.  A
        dependence is recorded (`high_dep`), not raised: the space is then
        explored again with the counters living above 255 (see `work`)."""
        hi = self.HIGH_PROBES[self.high_checked % len(self.HIGH_PROBES)]
        self.high_checked += 1
        obs2 = self.execute(hi | c, won, frame)
        low = (obs["ret"], obs["frame"], obs["c"] & 0xff, obs["werr"],
               (obs["c"] - c) & 0xffffffff, obs["trap"])
        high = (obs2["ret"], obs2["frame"], obs2["c"] & 0xff, obs2["werr"],
                (obs2["c"] - (hi | c)) & 0xffffffff, obs2["trap"])
        if low != high and self.high_dep is None:
            self.high_dep = dict(
                counter=c, upper_bits=hi, output_enabled=won, arriving=fr,
                low=dict(action=low[0], counter_after=low[2],
                         increment=low[4], index_after=low[1][INDEX0]
                         if len(low[1]) > INDEX0 else None, trap=low[5]),
                high=dict(action=high[0], counter_after=high[2],
                          increment=high[4], index_after=high[1][INDEX0]
                          if len(high[1]) > INDEX0 else None, trap=high[5]))

    @staticmethod
    def _merge_variant(viol, pvs, suffix, extra, props=("C21", "C22")):
        """violations of a variant of the step (judged, not explored
        further): one per name, the first"""
        for pv in pvs:
            if pv[0] not in props:
                continue
            name = pv[1] + suffix
            kf = defect_model_of(pv[3])
            if any(x[1] in (name, pv[1]) and defect_model_of(x[3]) == kf
                   for x in viol):
                continue
            viol.append((pv[0], name, pv[2], dict(extra, observed=pv[3])))

    def step_group(self, c, won, fr):
        """memoised: (c, won, arriving frame) ->
        (ret, tail, c', won', frame' or None, violations, obs digest)"""
        key = (c, won, fr)
        r = self.cache.get(key)
        if r is not None:
            return r
        frame = self.frame_bytes(fr)
        c32 = self.hi | c
        obs = self.execute(c32, won, frame)
        viol = self.judge_group_step(c, won, frame, obs)
        # the counter abstraction (checked on steps that were judged
        # correct; a step with a violation is reported as such)
        if self.hi == 0 and obs["trap"] is None and not viol and \
                (self.nruns % 8 == 0 or c in (0, 255)):
            self._abstraction_check(c, won, fr, frame, obs)
        if obs["other"]:
            viol.append(("C22", "dispatcher wrote outside the group's loop "
                         "counter", "untouched", "other map bytes changed"))
        # the same step for a master that uses the EtherCAT ethertype itself
        # (data0 == 0x88A4: FastEtherCat, the first participant): the same
        # invariants, and the same outcome apart from the ethertype
        if obs["trap"] is None and len(frame) >= 28:
            f2 = bytearray(frame)
            f2[26:28] = ECAT[::-1]
            o2 = self.execute(c32, won, f2)
            self.ndata0 += 1
            pv2 = self.judge_group_step(c, won, f2, o2)
            same = o2["trap"] is None and all(
                o2[k] == obs[k] for k in ("ret", "tail", "c", "werr", "runs"))
            if same:
                same = len(o2["frame"]) == len(obs["frame"]) and all(
                    a == b for n, (a, b) in enumerate(zip(o2["frame"],
                                                          obs["frame"]))
                    if n not in (12, 13, 26, 27))
            if not same:
                pv2.append(("C22", "the outcome of a pass depends on the "
                            "ethertype user space asked for",
                            "the same action, counters and frame (apart "
                            "from the ethertype) for data0 = 0x88a4 and "
                            f"{ETHERTYPE:#06x}",
                            dict(action=o2["ret"], trap=o2["trap"],
                                 tail=o2["tail"], counter=o2["c"] & 0xff)))
            self._merge_variant(viol, pv2, " [data0 = 0x88a4]",
                                dict(data0="0x88a4"))
        # the same step with wrong counters that look right in their low
        # bits (judged, not explored further: see wrong_counter_variants)
        if obs["trap"] is None and any(fr[1]):
            for n, val, vfr in self.wrong_counter_variants(fr):
                vframe = self.frame_bytes(vfr)
                vobs = self.execute(c32, won, vframe)
                self.nvariants += 1
                what = "all writers" if n == "all" else \
                    f"writer {n} returned {val:#06x}"
                self._merge_variant(
                    viol, self.judge_group_step(c, won, vframe, vobs)[:],
                    " [working counter that equals the expected one in its "
                    "low bits]", dict(counters=what, arriving=list(vfr[2])),
                    props=("C21",))
        # the same step with an activated frame of an earlier group in this
        # slot arriving instead (stragglers): output disabled or no program
        if obs["trap"] is None and not (self.registered and won):
            for what, vfr in self.straggler_variants(fr):
                vframe = self.frame_bytes(vfr)
                vobs = self.execute(c32, won, vframe)
                self.nstragglers += 1
                pvs = self.judge_group_step(c, won, vframe, vobs)
                if vobs.get("disabled_program_returned_enabled_frame"):
                    self.nadopted += 1
                self.step_outcomes.add(
                    ("straggler", self.registered, bool(won), vobs["ret"],
                     bool(vobs["tail"]),
                     vobs["trap"] is None and len(vobs["frame"]) > INDEX0
                     and any(vobs["frame"][cp]
                             for cp, _, _, _ in self.writers)))
                self._merge_variant(
                    viol, pvs, " [frame arriving with enabled write "
                    "datagrams]", dict(arriving_commands=list(vfr[1]),
                                       arriving_counters=list(vfr[2]),
                                       counters=what))
        ret = obs["ret"]
        nf = None
        if ret == TX and len(obs["frame"]) == len(frame):
            nf = self.frame_state(obs["frame"])
        won2 = 1 if obs["werr"] else 0
        r = (ret, 1 if obs["tail"] else 0, obs["c"] & 0xff, won2, nf, viol)
        self.cache[key] = r
        return r

    def step_foreign(self, c, won, kind):
        key = ("F", c, won, kind)
        r = self.cache.get(key)
        if r is not None:
            return r
        frame = self.foreign_frame(kind)
        obs = self.execute(self.hi | c, won, frame)
        viol = self.judge_foreign(kind, frame, obs, c)
        if obs["werr"] != (1 if won else 0) or obs["runs"]:
            viol.append(("C22", "foreign frame reached the group program",
                         "untouched group", dict(werr=obs["werr"],
                                                 runs=obs["runs"])))
        if obs["other"] or obs["c"] != self.hi | c:
            viol.append(("C22", f"foreign frame ({kind}) changed the "
                         "dispatcher's counters", "untouched",
                         dict(group_counter=obs["c"], other=obs["other"])))
        r = (obs["ret"], obs["c"] & 0xff, viol)
        self.cache[key] = r
        return r


# ===================================================================== search
# state = (c, won, kleft, queue, nprog, tracked)
def initial_state(K):
    return (0, 0, K, (), (), None)


def enabled_events(m, s):
    c, won, kleft, queue, nprog, tracked = s
    evs = []
    for j, fr in enumerate(queue):
        if j <= kleft:
            for inc in m.bus_choices(fr):
                evs.append(("deliver", j, inc))
    for j in range(len(queue)):
        evs.append(("lose", j))
    if len(queue) < MAXQ:
        evs.append(("inject",))
        if not m.registered and tracked is None:
            evs.append(("inject-tracked",))
    if m.registered and not won:
        evs.append(("enable",))
    for kind in FOREIGN:
        evs.append(("foreign", kind))
    return evs


def apply_event(m, s, ev):
    """-> (state', info) ; info = dict(viol=[...], ret, tail, circ)"""
    c, won, kleft, queue, nprog, tracked = s
    info = dict(viol=[], ret=None, tail=0, circ=False, kind=ev[0])
    k = ev[0]
    if k in ("inject", "inject-tracked"):
        if k == "inject-tracked":
            tracked = len(queue)
        return (c, won, kleft, queue + (m.fresh,), nprog, tracked), info
    if k == "enable":
        return (c, 1, kleft, queue, nprog, tracked), info
    if k == "lose":
        j = ev[1]
        q = queue[:j] + queue[j + 1:]
        if tracked is not None:
            tracked = None if tracked == j else \
                tracked - 1 if tracked > j else tracked
        return (c, won, kleft, q, nprog, tracked), info
    if k == "foreign":
        ret, c2, viol = m.step_foreign(c, won, ev[1])
        info.update(viol=viol, ret=ret)
        return (c2, won, kleft, queue, nprog, tracked), info
    if k == "deliver":
        j, inc = ev[1], ev[2]
        idx, cmds, wkcs = queue[j]
        arrived = (idx, cmds, tuple((w + i) & 0xffff
                                    for w, i in zip(wkcs, inc)))
        ret, tail, c2, won2, nf, viol = m.step_group(c, won, arrived)
        q = queue[:j] + queue[j + 1:]
        was_tracked = tracked == j
        if tracked is not None:
            tracked = None if was_tracked else \
                tracked - 1 if tracked > j else tracked
        if nf is not None:
            q = q + (nf,)
            if was_tracked:
                tracked = len(q) - 1
                info["circ"] = True
        info.update(viol=list(viol), ret=ret, tail=tail)
        # nprog = (dispositions since the last run of the group program,
        #          saturating at NSAT) + a trailing int: how many of the
        #          frames since the last run were handed to user space
        npass = nprog[-1] if nprog and isinstance(nprog[-1], int) else 0
        nprog = tuple(x for x in nprog if not isinstance(x, int))
        if tail or not m.registered:
            nprog2 = ()
            npass2 = 0
        else:
            d_ = disposition(info)
            nprog2 = (nprog + (d_,))[-NSAT:]
            npass2 = min(3, npass + (d_ == "PASS"))
        if m.registered and npass2 == 3 and npass == 2:
            info["viol"] = info["viol"] + [(
                "C22", "three frames of a registered group handed to user "
                "space in a row without its program having run",
                "at most 2 frames handed to user space between two runs of "
                "the group program",
                "a third one: " + ", ".join(nprog2))]
        if m.registered and len(nprog2) > 2 and len(nprog) <= 2:
            info["viol"] = info["viol"] + [(
                "C22", "more than two consecutive frames of a registered "
                "group pass without running its program: "
                + ", ".join(nprog2),
                "at most 2 consecutive passes without the group program",
                "3 consecutive passes without it: " + ", ".join(nprog2))]
        return (c2, won2, kleft - j, q,
                nprog2 + ((npass2,) if nprog2 else ()), tracked), info
    raise Internal(f"unknown event {ev!r}")


def disposition(info):
    if info["ret"] == PASS:
        return "PASS"
    if info["ret"] == TX:
        return "TX-active" if info["tail"] else "TX-passive"
    return f"ret={info['ret']}"


def bfs(m, K, cap):
    """-> dict(states, parents, transitions, violations, capped, edges)"""
    init = initial_state(K)
    ids = {init: 0}
    states = [init]
    parent = [(-1, None)]
    todo = deque([0])
    transitions = 0
    found = []           # (state id, event, viol tuple)
    seen_sig = set()
    circ_edges = []      # (src id, dst id) tracked frame returned to the bus
    tracked_edges = {}   # src id -> [dst id] among tracked states
    deliver_edges = {}   # src id -> [dst id], deliveries that return the frame
    capped = False
    while todo:
        sid = todo.popleft()
        s = states[sid]
        for ev in enabled_events(m, s):
            s2, info = apply_event(m, s, ev)
            transitions += 1
            for viol in info["viol"]:
                # history-dependent violations are reported separately for
                # ring order and for histories that used overtaking
                hist = viol[1].startswith("more than two")
                sig = (viol[0], viol[1], hist and s2[2] < K,
                       defect_model_of(viol[3]))
                if sig not in seen_sig:
                    seen_sig.add(sig)
                    found.append((sid, ev, viol))
            tid = ids.get(s2)
            if tid is None:
                if len(states) >= cap:
                    capped = True
                    continue
                tid = len(states)
                ids[s2] = tid
                states.append(s2)
                parent.append((sid, ev))
                todo.append(tid)
            if not m.registered and ev[0] == "deliver" \
                    and len(s2[3]) == len(s[3]):
                deliver_edges.setdefault(sid, []).append(tid)
            if s[5] is not None and s2[5] is not None:
                tracked_edges.setdefault(sid, []).append(tid)
                if info["circ"]:
                    circ_edges.append((sid, tid, ev))
    return dict(states=states, parent=parent, transitions=transitions,
                found=found, capped=capped, circ_edges=circ_edges,
                tracked_edges=tracked_edges, deliver_edges=deliver_edges)


def trace_to(parent, sid):
    evs = []
    while sid > 0:
        sid, ev = parent[sid][0], parent[sid][1]
        evs.append(ev)
    return evs[::-1]


def sccs(nodes, adj):
    """iterative Tarjan -> dict node -> component number"""
    index = {}
    low = {}
    comp = {}
    stack = []
    on = set()
    n = [0]
    ncomp = [0]
    for root in nodes:
        if root in index:
            continue
        work = [(root, iter(adj.get(root, ())))]
        index[root] = low[root] = n[0]
        n[0] += 1
        stack.append(root)
        on.add(root)
        while work:
            v, it = work[-1]
            advanced = False
            for w in it:
                if w not in index:
                    index[w] = low[w] = n[0]
                    n[0] += 1
                    stack.append(w)
                    on.add(w)
                    work.append((w, iter(adj.get(w, ()))))
                    advanced = True
                    break
                elif w in on:
                    low[v] = min(low[v], index[w])
            if advanced:
                continue
            work.pop()
            if work:
                u = work[-1][0]
                low[u] = min(low[u], low[v])
            if low[v] == index[v]:
                while True:
                    w = stack.pop()
                    on.discard(w)
                    comp[w] = ncomp[0]
                    if w == v:
                        break
                ncomp[0] += 1
    return comp


def _events_between(m, r, a, b, only=None):
    sa = r["states"][a]
    for e2 in enabled_events(m, sa):
        if only is not None and e2[0] != only:
            continue
        if apply_event(m, sa, e2)[0] == r["states"][b]:
            return e2
    raise Internal("cycle reconstruction failed")


def _cycle_through(m, r, adj, comp, src, dst, only=None):
    """events of a path dst ->* src inside src's component"""
    prev = {dst: None}
    dq = deque([dst])
    while dq and src not in prev:
        u = dq.popleft()
        for w in adj.get(u, ()):
            if w not in prev and comp.get(w) == comp[src]:
                prev[w] = u
                dq.append(w)
    path = [src]
    while prev.get(path[-1]) is not None:
        path.append(prev[path[-1]])
    path = path[::-1]     # dst ... src
    return [_events_between(m, r, a, b, only) for a, b in zip(path, path[1:])]


def find_circulation(m, r):
    """unregistered group, reading (B): a cycle of the state graph made of
    deliveries only (nothing is injected, nothing lost), i.e. the frames in
    flight are returned to the bus for ever -> (prefix, cycle) or None"""
    adj = r["deliver_edges"]
    nodes = sorted(set(adj) | {t for ts in adj.values() for t in ts})
    comp = sccs(nodes, adj)
    for src in sorted(adj):
        for dst in adj[src]:
            if comp.get(src) == comp.get(dst):
                ev = _events_between(m, r, src, dst, "deliver")
                return (trace_to(r["parent"], src),
                        [ev] + _cycle_through(m, r, adj, comp, src, dst,
                                              "deliver"))
    return None


def find_fed_circulation(m, r):
    """reading (A), reported as coverage only: a cycle on which one tracked
    frame keeps returning to the bus while user space keeps injecting fresh
    frames -> (prefix, cycle) or None"""
    if not r["circ_edges"]:
        return None
    adj = r["tracked_edges"]
    nodes = sorted(set(adj) | {t for ts in adj.values() for t in ts})
    comp = sccs(nodes, adj)
    for src, dst, ev in r["circ_edges"]:
        if comp.get(src) is not None and comp.get(src) == comp.get(dst):
            return (trace_to(r["parent"], src),
                    [ev] + _cycle_through(m, r, adj, comp, src, dst))
    return None


# ===================================================================== driver
def sterile_check(m):
    """C21, first sentence: what user space sends has every write datagram
    disabled and is otherwise the assembled frame"""
    g = m.group
    v = []
    exp = bytearray(g.assembled)
    for cp, _, _, _ in g.writers():
        exp[cp] = 0
    if bytes(exp) != g.sterile:
        diff = [i for i in range(min(len(exp), len(g.sterile)))
                if exp[i] != g.sterile[i]]
        v.append(("C21", "frame leaves user space not sterile",
                  "assembled frame with every writer command = NOP",
                  dict(differs_at=diff[:8], len=len(g.sterile))))
    if g.sterile[3] != 0:
        v.append(("C21", "fresh frame does not carry loop index 0", 0,
                  g.sterile[3]))
    return v


def patterns(m, r, sid, ev):
    """-> (events, dispositions of all deliveries, overtakes used)"""
    evs = trace_to(r["parent"], sid) + [ev]
    K = r["states"][0][2]
    s = initial_state(K)
    out = []
    for e in evs:
        s, info = apply_event(m, s, e)
        if e[0] == "deliver":
            out.append(disposition(info))
    return evs, out, K - s[2]


STARVE_PATTERNS = [["PASS", "TX-passive", "PASS"],
                   ["TX-passive", "PASS", "PASS"],
                   ["PASS", "PASS", "TX-passive"]]


def classify(viol, disp, overtakes):
    """narrow known-finding attribution -> kf id or None.

    KF_STARVE: only histories in which a frame of the group overtook an older
    one, and only the documented shape - two stale frames handed to user
    space and one passive return, in any rotation.  The same violation in
    ring order, or any other sequence of three, stays a fresh violation."""
    if viol[1].startswith("more than two consecutive frames") \
            and overtakes >= 1 and disp[-3:] in STARVE_PATTERNS:
        return KF_STARVE
    if viol[1].startswith("frame returned to the bus with enabled write "
                          "datagrams in a pass with output disabled"):
        return defect_model_of(viol[3])
    return None


HIGH_SPACES = (0x00000100, 0xffffff00)


def _report_search(m, r, prop, case0, K, cap, res, high=0):
    """counts, outcomes and violations of one search of one configuration
    (high: the upper bits the loop counter word lived in)"""
    layout, registered = m.layout, m.registered
    nst = len(r["states"])
    res.count("states", nst)
    res.count("transitions", r["transitions"])
    res.count("evaluations", r["transitions"])
    if high:
        res.count("high_counter_states", nst)
        res.count("high_counter_transitions", r["transitions"])
    byk = {}
    for s in r["states"]:
        byk[K - s[2]] = byk.get(K - s[2], 0) + 1
    res.cov.setdefault("per_config", []).append(dict(
        layout=layout, registered=registered, K=K, states=nst,
        transitions=r["transitions"], distinct_steps=len(m.cache),
        states_by_overtakes_used=byk, counter_upper_bits=high,
        max_queue=max(len(s[3]) for s in r["states"]),
        counters_reached=len({s[0] for s in r["states"]})))
    if r["capped"]:
        res.caps_hit.append(f"{layout}/{registered}/K={K}: state cap "
                            f"{cap}")
        res.exhaustive = False
    tag = f"{layout}/{registered}/{high}/".encode()
    for s in r["states"]:
        if s[3]:
            res.nontrivial.add(hashlib.blake2b(
                tag + repr(s).encode(), digest_size=8).hexdigest())
    for key, val in m.cache.items():
        if key[0] == "F":
            res.outcomes.add(("foreign", val[0]))
        else:
            res.outcomes.add((registered, val[0], val[1],
                              val[4] is not None
                              and any(val[4][1])))
    res.outcomes |= m.step_outcomes
    for sid, ev, viol in r["found"]:
        evs, disp, overtakes = patterns(m, r, sid, ev)
        kf = classify(viol, disp, overtakes)
        if high and kf is None:
            res.count("high_counter_violations_both_properties")
        if viol[0] != prop:
            res.count("violations_of_sibling_property")
            continue
        res.violation(dict(case0, events=evs, check=viol[1],
                           dispositions=disp[-4:],
                           overtakes_used=overtakes),
                      viol[2], viol[3], kf=kf,
                      sig=core.digest([viol[0], viol[1], str(kf),
                                       overtakes > 0, bool(high)]),
                      note=viol[1] + (" [loop counter word above 255]"
                                      if high else ""))
    if not registered and prop == "C22":
        cyc = find_circulation(m, r)
        res.count("circulation_edges", len(r["circ_edges"]))
        fed = find_fed_circulation(m, r)
        if fed is not None and not high:
            kinds = sorted({e[0] for e in fed[1]})
            res.cov.setdefault(
                "circulation_under_continuous_injection", []).append(
                dict(layout=layout, prefix=fed[0], cycle_length=len(
                    fed[1]), cycle_event_kinds=kinds,
                    cycle_head=fed[1][:6]))
        if cyc is not None:
            res.violation(
                dict(case0, events=cyc[0], cycle=cyc[1],
                     check="circulation"),
                "no cycle on which a frame of an unregistered group "
                "keeps returning to the bus",
                dict(cycle_length=len(cyc[1])),
                sig=core.digest(["C22", "circulation", bool(high)]),
                note="frame of an unregistered group circulates forever")


def work(item, res):
    prop, layout, registered, K, cap, tier = item
    fastsim.reset_globals()
    case0 = dict(layout=layout, registered=registered, K=K)
    try:
        m = Model(layout, registered)
    except LeakedState as e:
        res.count("configs_not_built")
        if not STANDALONE.get(layout, True):
            # the generator refuses this group even on its own: a rejection,
            # not a statement about frames
            res.count("rejected_by_generator")
            res.outcomes.add("group not generated")
            return
        if prop == "C21":
            res.violation(
                dict(case0, events=[], check="build-after-decoy"),
                "a sync group's program does not depend on other groups "
                "built before it", str(e),
                sig=core.digest(["leak"]),
                note="group cannot be generated after another group was "
                     "built: state leaks between sync groups")
        res.count("states", 1)
        res.count("transitions", 1)
        res.count("evaluations", 1)
        return
    try:
        if m.gen_note is not None:
            res.cov["dispatcher_built_under_defect_model"] = True
            if prop == "C22":
                res.violation(
                    dict(case0, events=[], check="generate"),
                    "EtherXDP().assemble() produces the dispatcher",
                    m.gen_note, kf=KF_NOTGEN,
                    sig=core.digest(["notgen", m.gen_note]),
                    note="the dispatcher cannot be generated")
        if m.kernel_note:
            res.cov["kernel_load_failed"] = m.kernel_note
            if prop == "C22":
                res.violation(
                    dict(case0, events=[], check="load"),
                    "dispatcher and group program load into the kernel",
                    m.kernel_note, kf=KF_NOTGEN,
                    sig=core.digest(["notloaded", m.kernel_note[:60]]),
                    note="the kernel rejects the generated program")
        if getattr(m, "build_mismatch", None) and prop == "C21":
            res.violation(
                dict(case0, events=[], check="rebuild"),
                "identically declared groups compile to the same program",
                "%d vs %d instructions" % m.build_mismatch,
                sig=core.digest(["rebuild"]),
                note="a second group's program differs: state leaks between "
                     "sync groups")
        for viol in sterile_check(m):
            if viol[0] == prop:
                res.violation(dict(case0, events=[], check="sterile"),
                              viol[2], viol[3],
                              sig=core.digest([viol[0], viol[1]]),
                              note=viol[1])
        r = bfs(m, K, cap)
        nst = len(r["states"])
        _report_search(m, r, prop, case0, K, cap, res)
        res.count("counter_high_bits_checked", m.high_checked)
        if m.high_dep is not None:
            # the outcome of a step depends on the upper 24 bits of the loop
            # counter word: the low byte alone is not the state.  A slot
            # whose counter has passed 255 is what every slot reaches (the
            # word is never reset), so that space is explored as well and
            # judged by the same invariants.
            res.cov["counter_high_bits_matter"] = True
            res.cov.setdefault("counter_high_bits_dependence", []).append(
                dict(layout=layout, registered=registered, **m.high_dep))
            for hi in HIGH_SPACES:
                m.hi = hi
                m.cache = {}
                rh = bfs(m, K, cap)
                _report_search(m, rh, prop, dict(case0, high=True,
                                                 counter_upper_bits=hi),
                               K, cap, res, high=hi)
            m.hi = 0
            m.cache = {}
        res.count("vm_runs", m.nruns)
        res.count("traces_validated_against_impl", m.nruns)
        res.count("kernel_validated", m.kernel_checked)
        res.count("wrong_counter_variant_steps", m.nvariants)
        res.count("straggler_steps", m.nstragglers)
        res.count("data0_ethercat_steps", m.ndata0)
        res.count("enabled_frames_returned_by_a_disabled_program",
                  m.nadopted)
        if m.writers and not m.activated:
            res.count("configs_without_activated_frames")
        if len(res.samples) < 2 and nst > 10:
            sid = min(nst - 1, 777)
            res.sample(dict(case0, events=trace_to(r["parent"], sid),
                            state=r["states"][sid]))
    finally:
        m.close()


def work_any(item, res):
    if item[0] == "life":
        return life_work(item, res)
    return work(item, res)


def configs(ctx, prop):
    if ctx.quick:
        layouts, K, cap = QUICK_LAYOUTS, 1, 400000
    else:
        layouts, K, cap = list(LAYOUTS), 3, 1500000
    # seed: rotates which extra layout quick adds, never removes the named
    if ctx.quick:
        extra = [l for l in LAYOUTS if l not in layouts]
        layouts = layouts + [extra[ctx.seed % len(extra)]]
    items = []
    for n, layout in enumerate(layouts):
        for registered in (True, False):
            # quick: the first (smallest) layout gets overtaking budget 2
            k = K
            items.append((prop, layout, registered, k,
                          cap * 3 if k > K else cap, ctx.tier))
    return items


STANDALONE = {}


def run_for(ctx, prop):
    items = configs(ctx, prop)
    # before any group exists in this process: does each layout build alone?
    for layout in sorted({i[1] for i in items}):
        STANDALONE[layout] = standalone_ok(layout)
    # one pool for both explorations: the (few, long) dispatcher searches
    # first, the many short life-cycle subtrees fill the other workers
    life0 = core.Result()
    litems = life_items(ctx, prop, life0)
    res = core.pmap(ctx, work_any, items + litems, chunk=1)
    res.merge(life0)
    life_finish(ctx, res)
    if any(any(o for _, _, _, o in LAYOUTS[i[1]]) for i in items) and \
            not res.cov.get("straggler_steps") and \
            not res.cov.get("configs_without_activated_frames") and \
            not res.cov.get("configs_not_built"):
        raise Internal("no step was fed a frame with enabled write "
                       "datagrams while output was disabled")
    if res.cov.get("counter_high_bits_matter") and \
            not res.cov.get("high_counter_violations_both_properties"):
        # the low byte is not the whole state, and the spaces above 255
        # show nothing (for C21 and C22 together): nothing can be concluded
        raise Internal(
            "the dispatcher depends on more than the low byte of the loop "
            "counter, and the spaces with upper bits "
            + ", ".join(f"{h:#x}" for h in HIGH_SPACES)
            + " show no violation: the counter abstraction is not exact "
            f"({res.cov.get('counter_high_bits_dependence', [])[:1]})")
    # the counterexamples with the fewest deviations first
    res.violations.sort(
        key=lambda v: len(v["case"].get("deviations", ()))
        if v["case"].get("part") == "life-cycle" else -1)
    res.cov["kernel_available"] = kern.available()
    res.cov["layouts"] = sorted({i[1] for i in items})
    res.cov["overtaking_budget_K"] = items[0][3]
    res.cov["bound_completed"] = (f"<= {MAXQ} frames in flight, overtaking "
                                  f"budget K <= {items[0][3]}")
    res.assumptions += [
        "loop counter abstracted to its low byte (the dispatcher reads only "
        "mB; asserted by re-running sampled steps with the upper 24 bits "
        "0xfedcba / 0x000001 / 0xffffff, counter_high_bits_checked; were "
        "the outcome to differ, the space is explored again with the "
        "counter word above 255 - 0x100|c and 0xffffff00|c - and judged by "
        "the same invariants instead of trusting the abstraction); "
        "wkc_errors abstracted to zero / non-zero (the program only tests "
        "== 0; a 2^32 wrap is outside the model)",
        "C21, last sentence ('no frame goes back onto the bus with enabled "
        "write datagrams unless the group's program processed it in that "
        "pass'): 'processed' = the group's program ran in that pass WITH "
        "output enabled, i.e. re-enabled the datagrams and computed the "
        "outputs in that pass (the title's 'only write outputs computed in "
        "the same pass'; the reading under which the seeded change C21-6 is "
        "a violation).  A frame that arrives with enabled write datagrams "
        "and is not processed like that may be handed to user space as it "
        "is, or go back onto the bus with every write datagram disabled: "
        "disabling (command -> NOP) is allowed in any pass, it is neither "
        "re-enabling nor clearing nor counting.  Nothing else in it may "
        "change, nothing is counted",
        "stragglers: a frame with enabled write datagrams can be on the wire "
        "while output is disabled or the group has no program (an activated "
        "frame of an earlier group of the same devices in the same slot; "
        "slots and counters are reused, never reset); only combinations of "
        "loop index and commands that the real dispatcher + group program "
        "produce are fed (an enabled frame with another index has no "
        "history), at every counter value the search reaches with a frame "
        "of that index; counters expected / all 0 / one wrong / all wrong",
        "ethertype: a frame of a group returned to the bus (XDP_TX) carries "
        "0x88A4 (it is a frame on the EtherCAT loop), one handed to user "
        "space (XDP_PASS) the ethertype in the identification datagram's "
        "data, registered or not; judged on every pass for data0 = 0x9abc "
        "and data0 = 0x88a4",
        "'running the group's program' = the dispatcher's tail call entered "
        "the group's program (whether or not output is enabled); frames "
        "counted are the group's frames processed by the dispatcher, in "
        "arrival order; foreign frames neither count nor reset",
        "bus model: NOP datagrams are not touched; an enabled write datagram "
        "gets its working counter raised by expected, expected-1 or 0 "
        "(explored), or arrives with a wrong counter that equals the "
        "expected one in its low bits (step executed and judged; all wrong "
        "counters lead to the same successor: counter cleared, one more "
        "error); "
        "reader datagrams' counters and all process data are left alone "
        "(no program under test reads them); a frame returned with TX "
        "re-enters the ring behind the frames already in flight",
        "an identification datagram with index >= MAX_PROGS (slow path) may "
        "have its ethertype replaced by the datagram's data; nothing else",
        "'circulates forever' = a cycle of the state graph on which one "
        "tracked frame is delivered and returned to the bus at least once "
        "per round (an unfair environment that never delivers the frame is "
        "not circulation)",
    ]
    return res


def run(ctx):
    return run_for(ctx, PROP)


# ===================================================================== life cycle
# User space and kernel together: the real FastSyncGroup.run (with
# SyncGroupBase.run, update_devices, EtherCat.roundtrip_packet /
# datagram_received) of one or several masters runs on the virtual loop, the
# real FastEtherCat.register_sync_group edits the program table in the
# simulated kernel, and every frame that user space sends really circulates:
# each bus pass executes the real dispatcher bytecode and, through its tail
# call, whatever program sits in the table.  The explorer owns the order of
# bus passes and timers, losses, wrong working counters, the moment run() is
# cancelled or told to stop, and the random group numbers.
LIFE_ETHERTYPES = (ETHERTYPE, 0x3412, 0x4321)
LIFE_TAIL = 8           # at least that many default steps after the horizon
LIFE_TAIL_TIME = 0.06   # ... and at most that much virtual time (three
#                         response time-outs) for every live group to run
LIFE_TAIL_MAX = 240     # guard: steps
LIFE_ROUNDS = 2         # default schedule: bus rounds per timer tick
AL_TICK = 0.001
AL_TICKS = {"OPERATIONAL": 1, "SAFE_OPERATIONAL": 2}
LIFE_WRONG = (0, 0x100, 0x8000, 0xffff)    # wrong counters: 0, e+0x100, ...
SLOT_DOMAIN = (5, 63, 9)


def _life_wrong_value(expected, k):
    base = LIFE_WRONG[k % len(LIFE_WRONG)]
    v = 0 if base == 0 else (expected + base) & 0xffff if base == 0x100 \
        else (expected | base) & 0xffff
    return v if v != expected else (expected + 1) & 0xffff


class _CachedDispatcher:
    """the dispatcher program generated once per process: the same bytecode
    over the same descriptor numbers in a fresh kernel"""

    def __init__(self, insns, area, counters_off):
        self.insns, self.area, self.counters_off = insns, area, counters_off

    set_counter = fastsim.Dispatcher.set_counter
    get_counter = fastsim.Dispatcher.get_counter


_DISP_CACHE = {}


def _life_dispatcher(kernel, bpf, programs_fd):
    c = _DISP_CACHE.get(programs_fd)
    if c is None:
        disp, note = fastsim.build_dispatcher(kernel, programs_fd)
        if note is not None:
            raise Internal("life cycle: dispatcher not generated: " + note)
        vfd = bpf.map_fd_of(disp.area)
        m = kernel.maps[vfd]
        _DISP_CACHE[programs_fd] = (
            disp.insns, vfd, (m.type, m.key_size, m.value_size,
                              m.max_entries), disp.counters_off,
            fastsim.SimMaps._next_fd[0])
        return disp
    insns, vfd, shape, counters_off, next_fd = c
    if fastsim.SimMaps._next_fd[0] > vfd:
        raise Internal("life cycle: descriptor numbering changed")
    m = kernel.maps[vfd] = bpfvm.BpfMap(*shape)
    fastsim.SimMaps._next_fd[0] = next_fd
    return _CachedDispatcher(insns, m.area, counters_off)


class LifeGroup:
    """the harness's record of one fast sync group"""

    def __init__(self, world, mi, k, layout):
        self.world = world
        self.mi, self.k, self.layout = mi, k, layout
        self.name = f"m{mi}g{k}"
        self.ec = world.masters[mi]
        self.dev, self.outs, self.ins = make_devices(layout, self.ec)
        self.sg = FastSyncGroup(self.ec, [self.dev])
        self.task = None
        self.index = None
        self.registered = False       # between the two halves of
        #                               register_sync_group, as tracked here
        self.map_fd = None
        self.writers = self.out_pos = self.gsize = None
        self.noprog = 0
        self.over3 = False
        self.operational = False      # wkc_errors was seen non-zero
        self.stopped = None           # "cancel" / "running=False"
        self.last_ran = -1            # step of the last run of its program
        self.runs_total = 0
        self.teardown_passes = 0
        for t in self.sg.terminals:
            # the state machine and the FMMU set-up are C14's and C20's;
            # a state change takes some bus cycles to be acknowledged
            t.to_operational = self._to_operational
            t.set_state = self._set_state
            t.map_fmmu = _life_no_fmmu

    async def _to_operational(self, target=None):
        return None

    async def _set_state(self, state):
        import asyncio
        for _ in range(AL_TICKS.get(state.name, 1)):
            await asyncio.sleep(AL_TICK)
        self.world.note(f"{self.name}: terminals acknowledge {state.name}")

    # -- the group's variables in its map
    def _var(self, name, fmt, value=None):
        area = self.sg.properties
        off = self.dev.__dict__[name]
        if value is None:
            return struct.unpack_from("<" + fmt, area, off)[0]
        struct.pack_into("<" + fmt, area, off, value)

    def werr(self):
        return struct.unpack_from("<I", self.sg.properties,
                                  self.sg.__dict__["wkc_errors"])[0]

    def on_registered(self, index):
        w = self.world
        sg = self.sg
        self.index = index
        self.registered = True
        self.noprog = 0
        self.map_fd = w.bpf.map_fd_of(sg.properties)
        if self.map_fd is None:
            raise Internal("the group's variables are not in the simulated "
                           "kernel")
        assembled = bytes(sg.packet.assemble(index, self.ec.ethertype))
        self.writers = [(c + fastsim.ETH, p + fastsim.ETH, v, e)
                        for c, p, v, e in fastsim.writers_of(sg, assembled)]
        self.out_pos = [sg.pdo_assign[t][SyncManager.OUT] + fastsim.ETH
                        for t in self.outs]
        self.gsize = sg.packet.size
        w.note(f"{self.name}: registered as group {index}")

    def owns(self, pid):
        ent = self.world.bpf.loaded.get(pid)
        return ent is not None and self.map_fd in ent["maps"]


@contextlib.asynccontextmanager
async def _life_no_fmmu(*a, **kw):
    yield 0


class LifeTransport:
    def __init__(self, world, mi):
        self.world, self.mi = world, mi

    def sendto(self, data, addr=None):
        self.world.sent(self.mi, bytes(data))


class Life:
    """one execution.  cfg: dict(masters=[[layout, ...], ...], counter0=int
    (what an earlier group left in the loop counters), horizon=int (steps in
    which deviations are allowed), script=[[step, "start"|"cancel", master,
    group or None]], alphabet=letters of the deviations offered (T timer
    first, D bus pass first, L losses, W wrong counter, C cancel, R
    running=False), cost_W / cost_R, domain=[group numbers the random source
    answers with]).  Steps: D one bus pass of the oldest frame, T jump to the
    next timer; the default does LIFE_ROUNDS passes per frame in flight,
    then T."""

    def __init__(self, ch, cfg):
        self.ch, self.cfg = ch, cfg
        self.viol = []            # (prop, name, expected, observed, step)
        self.seen = set()
        self.log = []
        self.wire = []
        self.round_left = 0
        self.stepno = 0
        self.stats = dict(passes=0, enabled=0, handed_up=0, lost=0,
                          teardown_passes=0, wrong=0, dropped_up=0,
                          collisions=0, restarts=0, stragglers=0,
                          adopted=0)
        self.restarts = []
        self.outcomes = set()
        self.nrand = 0

    closing = False

    def note(self, text):
        if not self.closing:
            self.log.append(f"[{self.stepno}] {text}")

    def violation(self, prop, name, expected, observed):
        key = (prop, name, defect_model_of(observed))
        if key not in self.seen and not self.closing:
            self.seen.add(key)
            self.viol.append((prop, name, expected, observed, self.stepno))
            self.note(f"VIOLATION {prop}: {name}")

    # ------------------------------------------------------------ set-up
    def run(self):
        import asyncio
        import contextlib as _cl
        import ebpfcat.ebpfcat as E
        import ebpfcat.ethercat as EC
        from mc import seams, vloop
        cfg = self.cfg
        fastsim.reset_globals()
        # descriptor numbers are per kernel: the same in every execution
        fastsim.SimMaps._next_fd[0] = 1000
        self.kernel = bpfvm.Kernel()
        self.bpf = fastsim.SimBpf(self.kernel)
        self.loop = vloop.VLoop()
        handlers = dict(randrange=self._randrange, randint=self._randint)
        saved_mono = E.monotonic
        with _cl.ExitStack() as stack:
            stack.enter_context(self.loop)
            stack.enter_context(self.bpf)
            stack.enter_context(seams.own_random([E, EC], handlers))
            E.monotonic = self.loop.time
            stack.callback(setattr, E, "monotonic", saved_mono)
            # as FastEtherCat.connect does
            self.programs = E.create_map(E.MapType.PROG_ARRAY, 4, 4,
                                         FastEtherCat.MAX_PROGS)
            self.disp = _life_dispatcher(self.kernel, self.bpf,
                                         self.programs)
            self.table = self.kernel.maps[self.programs]
            self.masters = []
            for mi in range(len(cfg["masters"])):
                ec = FastEtherCat(f"sim{mi}")
                ec.ethertype = LIFE_ETHERTYPES[mi]
                ec.programs = self.programs
                ec.send_queue = asyncio.Queue()
                ec.transport = LifeTransport(self, mi)
                ec.register_sync_group = self._tracked(
                    ec, ec.register_sync_group)
                self.masters.append(ec)
            self.groups = []
            self.by_sg = {}
            for mi, layouts in enumerate(cfg["masters"]):
                for k, layout in enumerate(layouts):
                    self.groups.append(LifeGroup(self, mi, k, layout))
                    self.by_sg[id(self.groups[-1].sg)] = self.groups[-1]
            for gi in range(fastsim.MAX_PROGS):
                self.disp.set_counter(gi, cfg.get("counter0", 0))
            try:
                self._drive()
            finally:
                # tidying up is not part of the execution
                self.closing = True
                for g in sorted(self.groups, key=lambda g: g.name):
                    if g.task is not None:
                        g.task.cancel()
                try:
                    self.loop.run_until_idle()
                finally:
                    self.loop.shutdown()
                    self.loop.run_until_idle()
        return self.observation()

    def _tracked(self, ec, real):
        world = self

        @contextlib.contextmanager
        def register_sync_group(sg):
            g = world.by_sg[id(sg)]
            with real(sg) as index:
                g.on_registered(index)
                try:
                    yield index
                finally:
                    # from here on the group unregisters itself
                    g.registered = False
                    world.note(f"{g.name}: unregisters (group {index})")
        return register_sync_group

    # ------------------------------------------------------------ randomness
    def _randrange(self, start, stop=None, step=1):
        if stop is None:
            start, stop = 0, start
        if (start, stop, step) != (0, FastEtherCat.MAX_PROGS, 1):
            # not the group number: answered deterministically
            return range(start, stop, step)[0]
        dom = list(self.cfg.get("domain") or SLOT_DOMAIN)
        self.nrand += 1
        if self.nrand > 40:
            # a registration that keeps drawing numbers: let it fail
            # instead of growing the execution without bound
            raise RuntimeError("harness: more than 40 group numbers drawn")
        taken = set(self.table.progs)
        free = [x for x in dom if x not in taken] or \
            [x for x in range(FastEtherCat.MAX_PROGS) if x not in taken]
        if not free:
            raise Internal("life cycle: the program table is full")
        if self._rand_tries >= 2 or all(x in taken for x in dom):
            # after two answers from the domain (or when all of it is
            # taken) the source hits a free number
            return free[0]
        self._rand_tries += 1
        i = self.ch.choose(len(dom), "randrange", [0] * len(dom))
        if dom[i] in taken:
            self.stats["collisions"] += 1
        return dom[i]

    _rand_tries = 0

    def _randint(self, a, b):
        self._ri = getattr(self, "_ri", 0) + 1
        return a + self._ri

    # ------------------------------------------------------------ the bus
    def sent(self, mi, data):
        """user space hands a frame to the network"""
        ec = self.masters[mi]
        try:
            _, dgs = ecparse.parse(data)
        except ecparse.ParseError as e:
            self.violation("C22", "user space sent a malformed frame",
                           "a well-formed frame", str(e))
            dgs = []
        index = struct.unpack_from("<I", data, 4)[0] if len(data) >= 8 \
            else None
        g = next((g for g in self.groups
                  if g.mi == mi and g.index == index
                  and (g.registered or g.task is not None)), None)
        if g is not None and dgs:
            live = [d.cmd for d in dgs[1:] if d.cmd in WRITE_CMDS]
            if live:
                self.violation(
                    "C21", "user space: frame left with enabled write "
                    "datagrams", "all write datagrams disabled (NOP) in a "
                    "frame leaving user space",
                    dict(group=g.name, enabled_commands=live,
                         loop_index=data[3], frame=data.hex()[:80]))
        raw = fastsim.ETH_HEADER[:12] + b"\x88\xa4" + data
        self.wire.append(raw)
        self.round_left += LIFE_ROUNDS
        self.note(f"m{mi} sends a frame (group {index}, loop index "
                  f"{data[3] if len(data) > 3 else None})")

    def owner(self, frame):
        if len(frame) < 30 or frame[12:14] != b"\x88\xa4" or frame[16] != 0:
            return None
        index = struct.unpack_from("<I", frame, 18)[0]
        et = struct.unpack_from("<H", frame, 26)[0]
        cands = [g for g in self.groups
                 if g.index == index and g.ec.ethertype == et]
        reg = [g for g in cands if g.registered]
        return (reg or cands or [None])[-1]

    def deliver(self, wrong=False):
        frame = bytearray(self.wire.pop(0))
        g = self.owner(frame)
        self.stats["passes"] += 1
        if g is None:
            # nobody's frame (cannot happen: only groups send): let the
            # dispatcher have it, judge nothing but the action
            ret, vm = fastsim.run_vm(self.kernel, self.disp.insns, frame,
                                     0x12345678)
            if ret == TX:
                self.wire.append(bytes(frame))
            return
        # the frame has passed the terminals
        for n, (cp, wp, val, exp) in enumerate(g.writers):
            if frame[cp] != 0:
                w = struct.unpack_from("<H", frame, wp)[0]
                inc = exp
                if wrong:
                    inc = _life_wrong_value(exp, self.stepno + n)
                struct.pack_into("<H", frame, wp, (w + inc) & 0xffff)
        if wrong:
            self.stats["wrong"] += 1
        pre = bytes(frame)
        index = g.index
        slot = self.table.progs.get(index)
        own = slot is not None and g.owns(slot)
        werr0 = g.werr()
        runs0 = g._var("runs", "I")
        mark = (MARK ^ (self.stats["passes"] * 0x0101)) & 0xffff or MARK
        g._var("marker", "H", mark)
        c0 = self.disp.get_counter(index)
        obs = dict(trap=None)
        try:
            ret, vm = fastsim.run_vm(self.kernel, self.disp.insns, frame,
                                     (0, 0xffff, 0x10000, 0x12345678)[
                                         self.stats["passes"] % 4])
            obs.update(ret=ret, tail=vm.tail_calls)
        except bpfvm.Trap as t:
            obs.update(ret=None, tail=0, trap=str(t))
        ran_own = bool(obs["tail"]) and own
        obs.update(frame=bytes(frame), werr=g.werr(),
                   runs=(g._var("runs", "I") - runs0) & 0xffffffff)
        if obs["tail"] and not own:
            # somebody else's program handled the frame: for this group
            # the pass did not run its program
            obs["tail"] = 0
        was_reg = g.registered
        for pv in judge_pass(g.writers, g.out_pos, g.gsize, was_reg, werr0,
                             mark, pre, obs, ever_enabled=g.operational):
            self.violation(*pv)
        if obs.get("disabled_program_returned_enabled_frame"):
            self.stats["adopted"] += 1
        if werr0:
            g.operational = True
        if ran_own:
            g.last_ran = self.stepno
            g.runs_total += 1
            if werr0:
                self.stats["enabled"] += 1
        if g.stopped and was_reg:
            g.teardown_passes += 1
            self.stats["teardown_passes"] += 1
        disp_ = "trap" if obs["trap"] else \
            ("PASS" if obs["ret"] == PASS else
             ("TX-active" if ran_own else "TX-passive")
             if obs["ret"] == TX else f"ret={obs['ret']}")
        self.outcomes.add((was_reg, disp_, bool(werr0),
                           any(frame[cp] for cp, _, _, _ in g.writers)))
        self.note(f"bus pass: frame of {g.name} index {pre[INDEX0]} "
                  f"counter {c0 & 0xff} -> {disp_} index {frame[INDEX0]}"
                  f"{' (wrong working counter)' if wrong else ''}"
                  f"{'' if was_reg else ' (not registered)'}")
        inflight = 1 + sum(1 for f in self.wire if self.owner(f) is g)
        if inflight > MAXQ:
            # outside the statement's precondition (at most three frames of
            # a group in flight): the starvation bound is not judged for
            # the rest of this history
            g.over3 = True
        if was_reg:
            if ran_own:
                g.noprog = 0
            else:
                g.noprog += 1
                if g.noprog > 2 and not g.over3:
                    self.violation(
                        "C22", "life cycle: more than two consecutive "
                        "frames of a registered group pass without running "
                        "its program", "at most 2 consecutive passes "
                        "without the group's own program",
                        dict(group=g.name, index=index,
                             consecutive=g.noprog, last=disp_,
                             slot_holds_own_program=own))
        if obs["trap"] is not None:
            return
        if obs["ret"] == TX:
            self.wire.append(bytes(frame))
        elif obs["ret"] == PASS:
            et = struct.unpack_from("!H", frame, 12)[0]
            tgt = [ec for ec in self.masters if ec.ethertype == et]
            if tgt:
                self.stats["handed_up"] += 1
                self.loop.call_soon(tgt[0].datagram_received,
                                    bytes(frame[fastsim.ETH:]), None)
            else:
                self.stats["dropped_up"] += 1

    def check_table(self):
        for g in self.groups:
            if not g.registered:
                continue
            slot = self.table.progs.get(g.index)
            if slot is None or not g.owns(slot):
                other = [o.name for o in self.groups
                         if o is not g and slot is not None and o.map_fd
                         is not None and o.owns(slot)]
                self.violation(
                    "C22", "life cycle: the table slot of a registered "
                    "group does not hold its own program",
                    "a registered group's slot holds its program until the "
                    "group unregisters itself",
                    dict(group=g.name, index=g.index,
                         slot="empty" if slot is None else
                         f"program of {other[0] if other else 'nobody'}",
                         table={k: v for k, v in
                                sorted(self.table.progs.items())}))
        # nobody's entries: slots that hold a program although no group of
        # that number is registered are not judged here (C24)

    # ------------------------------------------------------------ driving
    def _options(self):
        """[(event, cost)], the default first"""
        cfg = self.cfg
        alpha = cfg.get("alphabet", "")
        timer = self.loop.next_timer() is not None
        opts = []
        if self.wire and (self.round_left > 0 or not timer):
            opts.append(("D", 0))
            if timer and "T" in alpha:
                opts.append(("T", 1))
        elif timer:
            opts.append(("T", 0))
            if self.wire and "D" in alpha:
                opts.append(("D", 1))
        else:
            return []
        if self.stepno >= cfg["horizon"]:
            return opts[:1]
        if self.wire:
            if "L" in alpha:
                opts.append(("L", 1))
                if len(self.wire) > 1:
                    opts.append(("LL", 1))
            if "W" in alpha:
                g = self.owner(self.wire[0])
                if g is not None and any(self.wire[0][cp]
                                         for cp, _, _, _ in g.writers):
                    opts.append(("W", cfg.get("cost_W", 1)))
        for gi, g in enumerate(self.groups):
            if g.stopped is None and g.task is not None \
                    and not g.task.done() and g.operational \
                    and g.werr() != 0:
                if "C" in alpha:
                    opts.append((("C", gi), 1))
                if "R" in alpha:
                    opts.append((("R", gi), cfg.get("cost_R", 1)))
        return opts

    def _apply(self, ev):
        if ev == "D":
            self.round_left = max(0, self.round_left - 1)
            self.deliver()
        elif ev == "W":
            self.round_left = max(0, self.round_left - 1)
            self.deliver(wrong=True)
        elif ev == "T":
            if not self.loop.advance():
                raise Internal("no timer to advance to")
            self.note("time passes")
            self.pending_round = True
        elif ev == "L":
            self.wire.pop(0)
            self.round_left = max(0, self.round_left - 1)
            self.stats["lost"] += 1
            self.note("the oldest frame is lost")
        elif ev == "LL":
            self.stats["lost"] += len(self.wire)
            self.wire[:] = []
            self.round_left = 0
            self.note("all frames in flight are lost")
        elif ev[0] == "C":
            g = self.groups[ev[1]]
            g.stopped = "cancel"
            g.task.cancel()
            self.note(f"{g.name}: run() is cancelled")
        elif ev[0] == "R":
            g = self.groups[ev[1]]
            g.stopped = "running=False"
            g.sg.running = False
            self.note(f"{g.name}: running = False")
        else:
            raise Internal(f"unknown event {ev!r}")

    pending_round = False

    def _script(self):
        for action, mi, k in self.cfg.get("script", {}).get(self.stepno, ()):
            gs = [g for g in self.groups if g.mi == mi and
                  (k is None or g.k == k)]
            for g in gs:
                if action == "restart":
                    # a supervisor: as soon as the master's previous group
                    # has ended, the next one is started (below)
                    self.restarts.append(g)
                    continue
                if action == "start":
                    self._rand_tries = 0
                    g.task = g.sg.start()
                    self.note(f"{g.name}: start()")
                elif action == "cancel":
                    # what FastEtherCat.run does when the master leaves
                    if g.task is not None and not g.task.done():
                        g.stopped = "cancel"
                        g.sg.cancel()
                        self.note(f"{g.name}: cancel()")
                else:
                    raise Internal(action)

    def _restart(self):
        n = 0
        for g in list(self.restarts):
            prev = next(p for p in self.groups
                        if p.mi == g.mi and p.k == g.k - 1)
            if prev.task is not None and prev.task.done():
                self.restarts.remove(g)
                self._rand_tries = 0
                g.task = g.sg.start()
                self.note(f"{g.name}: start() as soon as {prev.name} has "
                          f"ended; {len(self.wire)} frame(s) still on the "
                          "wire")
                self.stats["restarts"] += 1
                self.stats["stragglers"] += sum(
                    1 for f in self.wire
                    if prev.writers and any(f[cp] for cp, _, _, _
                                            in prev.writers))
                n += 1
        return n

    def _drive(self):
        cfg = self.cfg
        horizon = cfg["horizon"]
        t_h = None
        overdue = False
        while True:
            self._script()
            self.loop.run_until_idle()
            if self.restarts and self._restart():
                self.loop.run_until_idle()
            if self.pending_round:
                self.pending_round = False
                self.round_left = LIFE_ROUNDS * len(self.wire)
            self.check_table()
            for g in self.groups:
                if g.task is not None and g.task.done() \
                        and not g.task.cancelled() and g.stopped is None:
                    e = g.task.exception()
                    self.violation(
                        "C22", "life cycle: the sync group task ended",
                        "the group keeps running until it is stopped",
                        dict(group=g.name, error=repr(e)[:200]))
                    g.stopped = "died"
            if self.stepno >= horizon:
                # the fault-free continuation: until every live group has
                # run again (at least LIFE_TAIL steps)
                if t_h is None:
                    t_h = self.loop.time()
                waiting = [g for g in self._live() if g.last_ran < horizon]
                if self.stepno >= horizon + LIFE_TAIL and not waiting:
                    break
                if self.loop.time() - t_h > LIFE_TAIL_TIME or \
                        self.stepno >= horizon + LIFE_TAIL_MAX:
                    overdue = True
                    break
            opts = self._options()
            if not opts:
                break
            i = self.ch.choose(len(opts), "step", [c for _, c in opts])
            self._apply(opts[i][0])
            self.stepno += 1
        self.loop.run_until_idle()
        self.check_table()
        # C22, liveness part: after the last fault the group runs again
        for g in self._live():
            if overdue and g.last_ran < horizon:
                self.violation(
                    "C22", "life cycle: a registered group is not run again",
                    "the group's program runs again within "
                    f"{LIFE_TAIL_TIME * 1000:.0f} ms of the fault-free "
                    "continuation",
                    dict(group=g.name, index=g.index, last_ran=g.last_ran,
                         steps=self.stepno, in_flight=len(self.wire),
                         runs=g.runs_total))

    def _live(self):
        return [g for g in self.groups
                if g.registered and g.stopped is None and g.task is not None
                and not g.task.done()]

    def observation(self):
        return dict(viol=list(self.viol), stats=dict(self.stats),
                    outcomes=set(self.outcomes), steps=self.stepno,
                    log=list(self.log),
                    groups=[dict(name=g.name, index=g.index,
                                 runs=g.runs_total, stopped=g.stopped,
                                 registered=g.registered, over3=g.over3,
                                 missed=g.sg.missed_counter,
                                 teardown_passes=g.teardown_passes,
                                 done=g.task.done() if g.task else None)
                            for g in self.groups])


def _script_of(cfg):
    out = {}
    for step, action, mi, k in cfg.get("script", ()):
        out.setdefault(step, []).append((action, mi, k))
    return out


def life_execute(ch, cfg):
    cfg = dict(cfg, script=_script_of(cfg))
    return Life(ch, cfg).run()


def life_configs(ctx):
    """-> [(cfg, deviation bound)]"""
    quick = ctx.quick
    layouts = list(QUICK_LAYOUTS) if quick else \
        [l for l in LAYOUTS if l != "w0r0"]
    if quick:
        extra = [l for l in LAYOUTS if l not in layouts and l != "w0r0"]
        layouts.append(extra[ctx.seed % len(extra)])
    out = []
    # (b) one group: start, run, faults, stop
    counters = [0, 1]
    if ctx.seed:
        counters.append(2 + (ctx.seed * 37) % 250)
    for n, layout in enumerate(layouts):
        # thorough: the wrap-around of the loop counter during start-up
        # for the first two layouts
        for c0 in counters + ([255] if not quick and n < 2 else []):
            # pairs of deviations for the first two layouts (thorough: and
            # for one more of each writer count), single ones for the rest
            pairs = n < 2 or (not quick and layout in (
                "w0r1-fmmu", "w1r0-direct", "w2r2-mixed"))
            bound = 2 if pairs else 1
            out.append((dict(kind="one-group", masters=[[layout]],
                             counter0=c0, horizon=24 if quick else 30,
                             script=[[0, "start", 0, 0]],
                             alphabet="TDLWCR",
                             # quick: a wrong counter and running=False
                             # only on their own, not in pairs
                             cost_W=2 if quick else 1,
                             cost_R=2 if quick else 1,
                             domain=[GROUP_INDEX[layout]]), bound))
    for n, layout in enumerate(layouts):
        # (b') the slot has seen more than 255 frames (the counter word is
        # never reset; here it also passes 0x200 during start-up): single
        # deviations
        out.append((dict(kind="one-group-high-counter", masters=[[layout]],
                         counter0=0x1fe, horizon=24 if quick else 30,
                         script=[[0, "start", 0, 0]], alphabet="TDLWCR",
                         cost_W=1, cost_R=1,
                         domain=[GROUP_INDEX[layout]]), 1))
        if not LAYOUTS[layout] or not any(o for _, _, _, o
                                          in LAYOUTS[layout]):
            continue
        if quick and n >= 2:
            continue
        # (b'') restart: the group is cancelled, and as soon as it has
        # unregistered a new group of the same devices is started and gets
        # the same slot - while frames of the old one (one of them
        # activated) are still on the wire and output is disabled
        out.append((dict(kind="restart", masters=[[layout, layout]],
                         counter0=0, horizon=30,
                         script=[[0, "start", 0, 0], [16, "cancel", 0, 0],
                                 [16, "restart", 0, 1]],
                         alphabet="TDLW", cost_W=1,
                         domain=[GROUP_INDEX[layout]]), 1))
    # (c) two masters on one program table
    la, lb = layouts[0], layouts[1]
    # (name, groups per master, the master that leaves while the other
    # one keeps running)
    shapes = [("A1-B1", [[la], [lb]], 1),
              ("A1-B2", [[la], [lb, la]], 0),
              ("A2-B1", [[la, lb], [lb]], 1)]
    if not quick:
        shapes += [("A1-B1'", [[lb], [la]], 0),
                   ("A2-B2", [[la, lb], [lb, la]], 1)]
    for name, masters, leaver in shapes:
        script = [[0, "start", 0, 0]]
        step = 10
        if len(masters[0]) > 1:
            script.append([step, "start", 0, 1])
            step += 8
        script.append([step, "start", 1, 0])
        if len(masters[1]) > 1:
            step += 8
            script.append([step, "start", 1, 1])
        step += 12
        script.append([step, "cancel", leaver, None])   # one master leaves
        horizon = step + 10
        out.append((dict(kind="two-masters:" + name, masters=masters,
                         counter0=0, horizon=horizon, script=script,
                         alphabet="TDL" if not quick else "L",
                         domain=list(SLOT_DOMAIN)),
                    1 if not quick else (1 if name == "A1-B1" else 0)))
    return out


def life_on_exec(prop, cfg, res):
    def on_exec(ch, obs):
        st = obs["stats"]
        res.count("evaluations")
        res.count("lifecycle_executions")
        res.count("lifecycle_executions_" + cfg["kind"].split(":")[0]
                  .replace("-", "_"))
        res.count("traces_validated_against_impl")
        res.count("transitions", obs["steps"])
        res.count("states")          # one distinct execution
        res.count("lifecycle_bus_passes", st["passes"])
        res.count("lifecycle_enabled_passes", st["enabled"])
        res.count("lifecycle_teardown_passes", st["teardown_passes"])
        res.count("lifecycle_slot_collisions", st["collisions"])
        res.count("lifecycle_restarts_in_the_same_slot", st["restarts"])
        res.count("lifecycle_stragglers_adopted", st["adopted"])
        res.count("lifecycle_activated_frames_on_the_wire_at_restart",
                  st["stragglers"])
        if any(g["over3"] for g in obs["groups"]):
            res.count("outside_precondition")
        for o in obs["outcomes"]:
            res.outcomes.add(("life",) + o)
        res.outcomes.add(("life-end", tuple(
            (g["stopped"], g["registered"], g["done"])
            for g in obs["groups"])))
        if st["enabled"] and st["handed_up"]:
            res.nontrivial.add(core.digest(["life", cfg["kind"],
                                            cfg["masters"], cfg["counter0"],
                                            ch.choices]))
        if len(res.samples) < 1 and ch.cost() == 2:
            res.sample(dict(part="life-cycle", cfg=cfg,
                            choices=list(ch.choices), log=obs["log"][-12:]))
        for p, name, expected, observed, step in obs["viol"]:
            if p != prop:
                res.count("violations_of_sibling_property")
                continue
            kf = defect_model_of(observed)
            if kf is None:
                res.count("lifecycle_violating_executions")
            else:
                res.count("lifecycle_executions_showing_a_known_finding")
            # the shortest few per kind are enough for the report
            kept = [v for v in res.violations
                    if v["note"] == name and v["kf"] == kf]
            if len(kept) >= 2:
                continue
            res.violation(
                dict(part="life-cycle", cfg=cfg, choices=list(ch.choices),
                     deviations=[(i, k) for i, (k, n, c, _) in
                                 enumerate(ch.trace) if c],
                     check=name, at_step=step),
                expected, observed, kf=kf,
                sig=core.digest([p, name] + ([kf] if kf else [])), note=name)
    return on_exec


def life_work(item, res):
    import logging
    _, prop, cfg, bound, root = item
    run = lambda ch: life_execute(ch, cfg)     # noqa: E731
    logging.disable(logging.CRITICAL)
    try:
        explore.dfs(run, bound, life_on_exec(prop, cfg, res), root=root)
    finally:
        logging.disable(logging.NOTSET)


def life_items(ctx, prop, res):
    """work items of the combined user-space + kernel exploration; the root
    execution of every configuration is done here (into `res`), its
    subtrees become items for the workers"""
    import logging
    logging.disable(logging.CRITICAL)       # time-outs are in the alphabet
    items = []
    try:
        for cfg, bound in life_configs(ctx):
            run = lambda ch: life_execute(ch, cfg)     # noqa: E731
            for prefix in explore.frontier(run, bound, 2,
                                           life_on_exec(prop, cfg, res)):
                items.append(("life", prop, cfg, bound, prefix))
            a = life_execute(explore.Chooser(()), cfg)
            b = life_execute(explore.Chooser(()), cfg)
            if (a["log"], a["viol"]) != (b["log"], b["viol"]):
                # the same execution twice in this process differs.  From
                # equal process states (two forked children) it must not:
                # that would be the harness.  Otherwise something in the
                # library survives from one sync group to the next (the
                # dispatcher search reports that for C21 by building every
                # group after a decoy); executions are then not independent
                # and this exploration is not run.
                if _forked_digest(cfg) != _forked_digest(cfg):
                    raise Internal("life cycle: non-deterministic execution")
                res.caps_hit.append(
                    "life cycle not explored: library state survives from "
                    "one sync group to the next in one process")
                res.exhaustive = False
                res.cov["lifecycle_skipped"] = 1
                return []
    finally:
        logging.disable(logging.NOTSET)
    return items


def _forked_digest(cfg):
    """digest of the default execution, run in a forked child"""
    import os
    import sys
    sys.stdout.flush()
    r, w = os.pipe()
    pid = os.fork()
    if pid == 0:
        out = b"failed"
        try:
            os.close(r)
            o = life_execute(explore.Chooser(()), cfg)
            out = core.digest([o["log"], core.jsonable(o["viol"])]).encode()
        except BaseException as e:
            out = ("failed " + repr(e)[:100]).encode()
        finally:
            os.write(w, out)
            os._exit(0)
    os.close(w)
    data = b""
    while True:
        chunk = os.read(r, 4096)
        if not chunk:
            break
        data += chunk
    os.close(r)
    os.waitpid(pid, 0)
    return data


def life_finish(ctx, res):
    if res.cov.get("lifecycle_skipped"):
        return
    if not res.cov.get("lifecycle_teardown_passes"):
        raise Internal("life cycle: no bus pass between a stop request and "
                       "the unregistration was explored")
    if not res.cov.get("lifecycle_slot_collisions"):
        raise Internal("life cycle: no colliding group number was explored")
    at_restart = "lifecycle_activated_frames_on_the_wire_at_restart"
    if not res.cov.get(at_restart) and \
            not res.cov.get("lifecycle_violating_executions") and \
            not res.cov.get("violations_of_sibling_property"):
        raise Internal("life cycle: no activated frame of a stopped group "
                       "was on the wire when its successor got the slot")
    res.cov["lifecycle_configs"] = len(life_configs(ctx))
    res.assumptions += [
        "life cycle: terminal state changes are stubs that take 1 "
        "(OPERATIONAL) or 2 (SAFE-OPERATIONAL) timer ticks of 1 ms, FMMU "
        "set-up is a no-op (C14, C20); the bus delivers in ring order; the "
        "default schedule lets every frame in flight pass the dispatcher "
        f"{LIFE_ROUNDS} times per timer; deviations: a timer first / a "
        "further bus pass first, loss of the oldest or of all frames in "
        "flight, a wrong working counter, cancel() of run() or "
        "running=False once OPERATIONAL with output enabled",
        "life cycle: 'registered' is the time between the two halves of "
        "the real register_sync_group (observed by wrapping the context "
        "manager); 'its program' is the program in the table slot that "
        "refers to the group's own variables map; the starvation bound is "
        "judged only while the history never had more than three frames of "
        "the group in flight (the statement's precondition)",
        "life cycle, restart: a supervisor starts a new group of the same "
        "devices as soon as the cancelled one has unregistered; the random "
        "source gives it the same slot; the frames of the old group still "
        "on the wire (the activated one among them) are then frames of the "
        "new group and are judged as such (same layout: same datagram "
        "positions), the new group's output being disabled",
        "life cycle: 'restart after loss' = after the horizon no deviation "
        "is injected and the default schedule continues until every group "
        "that is registered and whose run() is alive has had its program "
        f"run again; a violation if that takes more than "
        f"{LIFE_TAIL_TIME * 1000:.0f} ms of virtual time (three response "
        "time-outs)",
    ]


# ===================================================================== replay
def replay_life(ctx, rep, prop):
    c = rep["case"]
    ch = explore.Chooser(tuple(c["choices"]))
    obs = life_execute(ch, c["cfg"])
    for line in obs["log"]:
        print("  " + line)
    print("  deviations:", [(i, k, ch_) for i, (k, n, ch_, _) in
                            enumerate(ch.trace) if ch_])
    return [dict(check=name, expected=e, observed=o, at_step=st)
            for p, name, e, o, st in obs["viol"] if p == prop]


def replay_for(ctx, rep, prop):
    c = rep["case"]
    if c.get("part") == "life-cycle":
        return replay_life(ctx, rep, prop)
    fastsim.reset_globals()
    m = Model(c["layout"], c["registered"], use_kernel=True)
    out = []
    try:
        def tup(x):
            return tuple(tup(y) for y in x) if isinstance(x, list) else x
        if c.get("check") == "generate":
            if m.gen_note is not None:
                out.append(dict(check="generate", observed=m.gen_note))
            return out
        if c.get("check") == "load":
            if m.kernel_note is not None:
                out.append(dict(check="load", observed=m.kernel_note))
            return out
        if c.get("check") == "sterile":
            return [dict(check=v[1], observed=v[3]) for v in sterile_check(m)
                    if v[0] == prop]
        m.hi = c.get("counter_upper_bits", 0) if c.get("high") else 0
        if m.hi:
            print(f"  loop counter word = {m.hi:#010x} | c (the slot has "
                  "seen more than 255 frames)")
        s = initial_state(c["K"])
        evs = [tup(e) for e in c["events"]]
        cyc = [tup(e) for e in c.get("cycle", [])]
        for rnd, seq in enumerate([evs] + ([cyc, cyc] if cyc else [])):
            start = s
            for ev in seq:
                if ev not in enabled_events(m, s):
                    raise Internal(f"replay diverged: {ev!r} not enabled "
                                   f"in {s!r}")
                s2, info = apply_event(m, s, ev)
                print(f"  {ev!r:42} -> {disposition(info) if ev[0] in ('deliver', 'foreign') else '':10} "
                      f"c={s2[0]} won={s2[1]} queue={s2[3]} nprog={s2[4]}")
                for v in info["viol"]:
                    if v[0] == prop:
                        out.append(dict(check=v[1], expected=v[2],
                                        observed=v[3], at=ev))
                s = s2
            if rnd >= 1:
                if s != start:
                    raise Internal("cycle does not close on replay")
                if rnd == 2:
                    out.append(dict(check="circulation",
                                    observed="cycle closes twice"))
        return out
    finally:
        m.close()


def replay(ctx, rep):
    return replay_for(ctx, rep, PROP)
