"""C14 - state changes walk the EtherCAT state machine in order.

The real Terminal.to_operational / get_state run through the real roundtrip
stack on the virtual loop against the ESC model; the explorer decides at
every AL-status poll whether the pending transition stays, is reached, or
fails.  The observed AL control writes and AL status reads are judged by a
reference automaton written from the property statement.
"""
import asyncio
import itertools

from mc import bussim, core, explore, vloop

from ebpfcat.ethercat import EtherCat, EtherCatError, MachineState, Terminal

PROP = "C14"
LEVEL = "model_checking"
RULE = ("start state x error flag x target x every terminal behaviour (per "
        "poll: stay / reach / error; latency <= k polls per transition; at "
        "most one injected error); non-trivial = at least one AL control "
        "write happened; distinct = distinct (configuration, behaviour)")

STATES = [1, 2, 4, 8]
TARGETS = [2, 4, 8]


def execute(ch, conf, k, max_errors=1):
    start, err, target = conf
    loop = vloop.VLoop()
    with loop:
        t = bussim.Terminal("t", station=1234)
        t.al_state = start
        t.al_error = err
        stays = [0]
        injected = [0]

        def poll(term):
            opts = ["reach"]
            if stays[0] < k:
                opts.append("stay")
            if injected[0] < max_errors:
                opts.append("error")
            a = opts[ch.choose(len(opts), "poll")]
            if a == "stay":
                stays[0] += 1
            else:
                stays[0] = 0
            if a == "error":
                injected[0] += 1
            return a
        t.al_poll = poll
        bus = bussim.Bus([t])
        m = bussim.Master(bus, lambda: EtherCat("sim"), loop)
        term = Terminal(m.ec)
        term.position = 1234
        fut = asyncio.ensure_future(
            term.to_operational(MachineState(target)))
        finished = m.run(fut, max_frames=400)
        if not finished:
            out = ("pending",)
        elif fut.exception() is not None:
            out = ("raise", type(fut.exception()).__name__)
        else:
            out = ("return",)
        log = list(t.al_log)
        loop.shutdown()
    return dict(log=log, out=out)


def judge(conf, obs):
    """reference automaton; returns None or (expected, observed, what)"""
    start, err, target = conf
    log, out = obs["log"], obs["out"]
    if not log or log[0] != ("status", start | (0x10 if err else 0)):
        return ("first action: AL status read", log[:1], "no initial read")
    i = 1
    cur = start
    acked = False
    if err:
        if i >= len(log) or log[i] != ("ctl", 0x11):
            return (("ctl", 0x11), log[i:i + 1],
                    "reported error not acknowledged with INIT|ack first")
        i += 1
        cur = 1
        acked = True
    plan = [s for s in (2, 4, 8) if cur < s <= target]
    for s in plan:
        if i >= len(log):
            return (("ctl", s), out, "stopped before requesting %d" % s)
        if log[i] != ("ctl", s):
            return (("ctl", s), log[i], "wrong request (expected next "
                    "state in order, one step at a time)")
        i += 1
        while True:
            if i >= len(log):
                if out == ("pending",):
                    return ("terminates", out, "does not terminate")
                return ("status read reporting %d before going on" % s,
                        out, "returned/raised without the requested state "
                        "having been reported")
            kind, v = log[i]
            i += 1
            if kind != "status":
                return (("status",), (kind, v),
                        "new request before the previous state was reported")
            if v & 0x10:
                rest = [e for e in log[i:] if e[0] == "ctl"]
                if out[0] != "raise" or out[1] != "EtherCatError":
                    return (("raise", "EtherCatError"), out,
                            "error reported while changing state, but no "
                            "EtherCatError raised")
                if rest:
                    return ("no further requests", rest,
                            "requests continue after an error")
                return None
            if v & 0xf == s:
                break
    rest = [e for e in log[i:] if e[0] == "ctl"]
    if rest:
        return ("no request above the target / no further request", rest,
                "superfluous AL control write")
    if out != ("return",):
        return (("return",), out, "did not return after reaching the target")
    return None


def work(conf, res):
    k = work.k

    def on_exec(ch, obs):
        res.count("evaluations")
        res.count("transitions", len(obs["log"]))
        if any(e[0] == "ctl" for e in obs["log"]):
            res.nontrivial.add(core.digest([conf, ch.choices]))
        res.outcomes.add((obs["out"], len([e for e in obs["log"]
                                           if e[0] == "ctl"])))
        v = judge(conf, obs)
        if v is not None:
            exp, seen, what = v
            res.violation(dict(conf=conf, choices=list(ch.choices), k=k,
                               errors=work.errors, log=obs["log"]), exp, seen,
                          sig=core.digest([what]), note=what)
    explore.dfs(lambda ch: execute(ch, conf, k, work.errors), 99, on_exec)
    a = execute(explore.Chooser(()), conf, k)
    b = execute(explore.Chooser(()), conf, k)
    if a != b:
        raise core.Internal("non-deterministic execution")


def run(ctx):
    work.k = 2 if ctx.quick else 5
    work.errors = 1 if ctx.quick else 2
    items = [(s, e, t) for s in STATES for e in (False, True)
             for t in TARGETS]
    res = core.pmap(ctx, work, items, chunk=1)
    res.cov["states"] = len(res.nontrivial)
    res.cov["traces_validated_against_impl"] = res.cov.get("evaluations", 0)
    res.cov["k"] = work.k
    res.sample(dict(conf=[1, True, 8], behaviour="ack, then PRE-OP after one "
                    "'stay', SAFE-OP at once, error while going to OP"))
    res.assumptions += [
        "terminal behaviours: a pending transition stays (<= k polls), is "
        "reached, or fails with the error flag; the terminal never reports "
        "a state that was not requested",
        "extra AL status reads are always allowed; only AL control writes "
        "and the final outcome are constrained"]
    return res


def replay(ctx, rep):
    res = core.Result()
    c = rep["case"]
    conf = tuple(c["conf"])
    obs = execute(explore.Chooser(tuple(c["choices"])), conf, c["k"],
                  c.get("errors", 1))
    for e in obs["log"]:
        print("  ", e)
    print("outcome", obs["out"])
    v = judge(conf, obs)
    if v:
        res.violation(c, v[0], v[1], note=v[2])
    return res.violations
